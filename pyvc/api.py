"""Sidecar contract language.

Contracts are Python *text*: every `requires` / `ensures` / invariant is a Python expression that is parsed with `ast`
and evaluated by the same symbolic evaluator as the code, so specification expressions have program semantics.

    contract("codemodder.result.same_line",
             params={"pos": "CodeRange", "location": "Location"}, returns="bool",
             ensures=["result == (pos.start.line == location.start.line and pos.end.line == location.end.line)"])

Spec-only vocabulary inside those expressions: old(e), result, implies(a, b), all(... for i in range(..)) (forall),
any(...) (exists), ANY("type") as a quantifier domain, spec functions declared with spec(...).
"""
from __future__ import annotations

import ast


class Contract:
    def __init__(self, qualname, **kw):
        self.qualname = qualname
        self.params = kw.pop("params", None)          # name -> type string (None: take annotations)
        self.returns = kw.pop("returns", None)
        self.requires = list(kw.pop("requires", []))
        self.ensures = [_lab(e) for e in kw.pop("ensures", [])]
        self.exsures = list(kw.pop("exsures", []))    # [(ExcClassName, condition or None, [post...])]
        self.raises_any = kw.pop("raises_any", False)  # verifying: any exception may escape; using: may raise any Exception
        self.modifies = kw.pop("modifies", [])        # lvalue strings; [] = nothing
        self.trusted = kw.pop("trusted", False)       # assumed, never verified (external / dependency)
        self.pure = kw.pop("pure", False)             # result is an uninterpreted function of the arguments
        self.inline = kw.pop("inline", False)         # callers inline the body instead of using the contract
        self.locals = kw.pop("locals", {})            # type hints for locals
        self.invariants = kw.pop("invariants", {})    # loop ordinal -> [expr,...] (k = iterations done)
        self.loop_modifies = kw.pop("loop_modifies", {})
        self.props = list(kw.pop("props", []))        # property ids this contract's obligations count for
        self.note = kw.pop("note", "")
        self.ghost = kw.pop("ghost", {})              # ghost name -> (type, init expr) made available to the spec
        self.unroll = kw.pop("unroll", {})            # loop ordinal -> True: iterable is a literal tuple/list, unroll
        self.assume_entry = list(kw.pop("assume_entry", []))   # extra entry assumptions (recorded as assumptions)
        self.covers = list(kw.pop("covers", []))      # expressions that must be reachable at some normal exit
        self.effects_free = kw.pop("effects_free", False)
        self.param_defaults = kw.pop("param_defaults", {})   # defaults of parameters of an external without an inspectable signature
        self.self_type = kw.pop("self_type", None)
        self.lemmas = list(kw.pop("lemmas", []))
        self.bounded = kw.pop("bounded", False)         # BOUNDED stand-in: clauses are only evaluated natively on generated inputs
        self.no_native = kw.pop("no_native", False)     # never execute the real function natively (search / cross-check)
        self.det_raise = kw.pop("det_raise", False)     # whether it raises is an (uninterpreted) function of the arguments
        self.noreturn = kw.pop("noreturn", False)       # the function only ever exits by raising
        self.ghost_exit = kw.pop("ghost_exit", {})      # ghost code run at every normal exit: ghost name -> expression
        self.functional = kw.pop("functional", False)   # deterministic function of (arguments, the heap fields in `reads`)
        self.reads = kw.pop("reads", None)              # heap field names the result depends on (None: whole heap)
        if kw:
            raise TypeError(f"unknown contract keys {list(kw)} for {qualname}")


def _lab(e):
    if isinstance(e, tuple):
        return e
    return (None, e)


class Spec:
    def __init__(self, name, params, returns, body=None, axioms=(), recursive=False, doc="", reads=None):
        self.name, self.params, self.returns, self.body = name, params, returns, body
        self.axioms = list(axioms)
        self.recursive = recursive
        self.doc = doc
        self.reads = reads or []


class Registry:
    def __init__(self):
        self.contracts: dict[str, Contract] = {}
        self.specs: dict[str, Spec] = {}
        self.records = []
        self.axioms = []            # (label, expr, vars{name: type})  global assumed facts
        self.opaque_attrs = {}      # attribute name on opaque values -> type string
        self.aliases = {}
        self.dropped_calls = set()  # qualified-name prefixes of calls that are dropped (logging)
        self.assumptions = []       # free text, copied to evidence
        self.exceptions = {}        # short name -> qualified name of exception classes used in contracts
        self.targets = {}           # property id -> [qualnames to verify]
        self.lemmas = []

    def contract(self, qualname, **kw):
        c = Contract(qualname, **kw)
        cur = self.contracts.get(qualname)
        if cur is not None and not cur.trusted and c.trusted:
            return cur
        self.contracts[qualname] = c
        for p in c.props:
            self.targets.setdefault(p, [])
            if not c.trusted and qualname not in self.targets[p]:
                self.targets[p].append(qualname)
        return c

    def external(self, qualname, **kw):
        """assumed contract; never replaces a contract that is actually verified (registered elsewhere, in any order)"""
        kw.setdefault("trusted", True)
        cur = self.contracts.get(qualname)
        if cur is not None and not cur.trusted:
            return cur
        return self.contract(qualname, **kw)

    def spec(self, name, params, returns, body=None, axioms=(), recursive=False, doc="", reads=None):
        self.specs[name] = Spec(name, params, returns, body, axioms, recursive, doc, reads)

    def lemma(self, name, **kw):
        self.lemmas.append(dict(name=name, **kw))

    def record(self, qualname, kind="ref", fields=None, bases=(), defaults=None, validators=()):
        self.records.append(dict(qualname=qualname, kind=kind, fields=fields or {}, bases=bases,
                                 defaults=defaults or {}, validators=list(validators)))

    def axiom(self, label, expr, **vars):
        self.axioms.append((label, expr, vars))

    def assume(self, text):
        self.assumptions.append(text)


REG = Registry()
contract = REG.contract
external = REG.external
spec = REG.spec
record = REG.record
axiom = REG.axiom
assume_note = REG.assume
lemma = REG.lemma


def parse_expr(s):
    return ast.parse(s.strip(), mode="eval").body
