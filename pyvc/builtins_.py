"""Builtin functions, methods of symbolic containers/strings, spec-only forms."""
from __future__ import annotations

import ast
import inspect

import z3

from . import seqs as Q

from . import locate
from .engine import MUTATORS, _container, _join_tys, _m
from .ty import *      # noqa
from .values import *  # noqa


def _mat(E, v, st, want=None):
    return v if isinstance(v, SVal) else E.materialize(v, st, want)


# =================================================================================================
# iteration helper: any iterable value -> (Seq term, element type) ; raises OutsideSubset when impossible
def seq_of(E, v, st):
    """view an iterable as a z3 sequence of its elements in iteration order"""
    if isinstance(v, IterView):
        if v.kind == "seq":
            return v.args[0]
        if v.kind == "chain":
            parts = [seq_of(E, p, st) for p in v.args[0]]
            ty = parts[0].ty
            t = parts[0].t
            for p in parts[1:]:
                t = Q.Concat(t, E.coerce(p, ty, st).t)
            return SVal(t, ty)
        if v.kind == "chain*":
            inner = seq_of(E, v.args[0], st)
            if not isinstance(inner.ty.elem, TList):
                raise OutsideSubset("chain(*xs) over non-lists")
            ety = inner.ty.elem.elem
            fname = "flatten_" + _m(inner.ty.key)
            first = not any(k[0] == fname for k in E.ufs)
            f = E.uf(fname, [E.U.sort(inner.ty)], Q.list_sort(E.U.sort(ety)))
            if first:
                srt = E.U.sort(inner.ty)
                xs = z3.Const("xs!fl", srt)
                i, j, m = z3.Ints("i!fl j!fl m!fl")
                idx = E.uf(fname + "_idx", [srt, z3.IntSort(), z3.IntSort()], z3.IntSort())
                oi = E.uf(fname + "_oi", [srt, z3.IntSort()], z3.IntSort())
                oj = E.uf(fname + "_oj", [srt, z3.IntSort()], z3.IntSort())
                fl = f(xs)
                inner_at = Q.At(Q.At(xs, i), j)
                E.axioms.append(z3.ForAll([xs, i, j], z3.Implies(z3.And(0 <= i, i < Q.Length(xs), 0 <= j, j < Q.Length(Q.At(xs, i))),
                                                                 z3.And(0 <= idx(xs, i, j), idx(xs, i, j) < Q.Length(fl), Q.At(fl, idx(xs, i, j)) == inner_at)),
                                           patterns=[z3.MultiPattern(fl, inner_at)]))
                E.axioms.append(z3.ForAll([xs, m], z3.Implies(z3.And(0 <= m, m < Q.Length(fl)),
                                                              z3.And(0 <= oi(xs, m), oi(xs, m) < Q.Length(xs), 0 <= oj(xs, m), oj(xs, m) < Q.Length(Q.At(xs, oi(xs, m))),
                                                                     Q.At(fl, m) == Q.At(Q.At(xs, oi(xs, m)), oj(xs, m)))),
                                           patterns=[Q.At(fl, m)]))
            E.assumptions.add("itertools.chain(*xs): flattening characterised by membership (x in chain(*xs) iff x in some xs[i]); order unconstrained")
            return SVal(f(inner.t), TList(ety))
        if v.kind == "gen":
            from .comp import list_comp_from_gen
            outs = list(list_comp_from_gen(E, v, st))
            if len(outs) == 1 and outs[0][0] is st and isinstance(outs[0][1], SVal):
                return outs[0][1]
            raise OutsideSubset("generator expression whose evaluation forks")
        raise OutsideSubset(f"sequence view of {v.kind}")
    if isinstance(v, STuple):
        items = [_mat(E, i, st) for i in v.items]
        if not items:
            raise OutsideSubset("empty tuple as sequence")
        ety = _join_tys([i.ty for i in items])
        t = None
        for it in items:
            u = Q.Unit(E.coerce(it, ety, st).t)
            t = u if t is None else Q.Concat(t, u)
        return SVal(t, TList(ety))
    if isinstance(v, PyObj):
        v = E.materialize(v, st)
        if isinstance(v.ty, TTuple):
            return E.coerce(v, TList(v.ty.elems[0]), st)
    if isinstance(v.ty, TOpt):
        v = SVal(E.U.dt(v.ty).get(v.t), v.ty.inner, v.origin)
    if isinstance(v.ty, TList):
        return v
    if isinstance(v.ty, TSet):
        return set_order(E, v, st)
    if isinstance(v.ty, TDict):
        return dict_order(E, v, st)
    if v.ty is OPAQUE:
        f = E.uf("iter_seq", [E.U.U], Q.list_sort(E.U.U))
        return SVal(f(v.t), TList(OPAQUE))
    raise OutsideSubset(f"iteration over {v.ty}")


def set_order(E, s, st):
    """an arbitrary duplicate-free enumeration of a set (iteration order is NOT a function of the set:
    a fresh sequence per iteration, which is what exposes hash-seed dependence)"""
    ety = s.ty.elem
    seq = E.fresh(TList(ety), "set_iter")
    i, j = z3.Ints(f"i!so{next(E.n)} j!so{next(E.n)}")
    x = z3.Const(f"x!so{next(E.n)}", E.U.sort(ety))
    n = Q.Length(seq.t)
    st.assume(z3.ForAll([i], z3.Implies(z3.And(0 <= i, i < n), z3.Select(s.t, Q.At(seq.t, i)))))
    st.assume(z3.ForAll([x], z3.Implies(z3.Select(s.t, x), E.seq_member(seq.t, x))))
    st.assume(z3.ForAll([i, j], z3.Implies(z3.And(0 <= i, i < j, j < n), Q.At(seq.t, i) != Q.At(seq.t, j))))
    return seq


def dict_order(E, d, st):
    """insertion order of a dict's keys: an uninterpreted function of the dict value (deterministic)"""
    kty = d.ty.k
    dt = E.U.dt(d.ty)
    f = E.uf("keys_order_" + _m(d.ty.key), [E.U.sort(d.ty)], Q.list_sort(E.U.sort(kty)))
    seq = SVal(f(d.t), TList(kty))
    i, j = z3.Ints(f"i!do{next(E.n)} j!do{next(E.n)}")
    x = z3.Const(f"x!do{next(E.n)}", E.U.sort(kty))
    n = Q.Length(seq.t)
    dom = dt.dom(d.t)
    st.assume(z3.ForAll([i], z3.Implies(z3.And(0 <= i, i < n), z3.Select(dom, Q.At(seq.t, i)))))
    st.assume(z3.ForAll([x], z3.Implies(z3.Select(dom, x), E.seq_member(seq.t, x))))
    st.assume(z3.ForAll([i, j], z3.Implies(z3.And(0 <= i, i < j, j < n), Q.At(seq.t, i) != Q.At(seq.t, j))))
    return seq


# =================================================================================================
# builtins
def b_len(E, args, kw, st, node):
    v = args[0]
    if isinstance(v, STuple):
        yield st, E.const(len(v.items))
        return
    if isinstance(v, Empty):
        yield st, E.const(0)
        return
    if isinstance(v, PyObj):
        yield st, E.const(len(v.obj))
        return
    if isinstance(v.ty, TOpt) or v.ty is NONE:
        st, v = E.unwrap(v, st, "len()")
        if st is None:
            return
    if isinstance(v.ty, TList) or v.ty is STR:
        yield st, SVal(Q.Length(v.t), INT)
    elif isinstance(v.ty, TTuple):
        yield st, E.const(len(v.ty.elems))
    elif isinstance(v.ty, (TSet, TDict)):
        f = E.uf("card_" + _m(v.ty.key), [E.U.sort(v.ty)], z3.IntSort())
        r = f(v.t)
        st.assume(r >= 0)
        st.assume((r == 0) == z3.Not(E.truthy(v, st)))
        yield st, SVal(r, INT)
    elif v.ty is OPAQUE:
        f = E.uf("len_U", [E.U.U], z3.IntSort())
        st.assume(f(v.t) >= 0)
        yield st, SVal(f(v.t), INT)
    else:
        raise OutsideSubset(f"len of {v.ty}")


def b_any(E, args, kw, st, node, is_all=False):
    v = args[0]
    if isinstance(v, IterView) and v.kind == "gen":
        from .comp import quantifier
        saved = st.bound
        st.bound = list(v.args[1]) if v.args[1] else st.bound
        try:
            outs = list(quantifier(E, is_all, v.args[0], st))
        finally:
            st.bound = saved
        for s2, r in outs:
            s2.bound = saved
            yield s2, r
        return
    from .comp import binder
    b = binder(E, v, st)
    if b[0] == "unroll":
        ts = [E.truthy(x, st) for x in b[1]]
        yield st, SVal((z3.And(ts) if is_all else z3.Or(ts)) if ts else z3.BoolVal(is_all), BOOL)
        return
    _, bs, guard, ev, _i, _n = b
    t = E.truthy(ev, st)
    yield st, SVal(z3.ForAll(bs, z3.Implies(guard, t)) if is_all else z3.Exists(bs, z3.And(guard, t)), BOOL)


def b_all(E, args, kw, st, node):
    yield from b_any(E, args, kw, st, node, is_all=True)


def b_isinstance(E, args, kw, st, node):
    v, c = args
    classes = c.items if isinstance(c, STuple) else [c]
    outs = []
    for k in classes:
        if not isinstance(k, PyObj) or not isinstance(k.obj, type):
            raise OutsideSubset("isinstance with non-class")
        outs.append(isinstance_(E, v, k.obj, st))
    yield st, SVal(z3.Or(outs) if len(outs) > 1 else outs[0], BOOL)


def isinstance_(E, v, cls, st):
    qn = f"{cls.__module__}.{cls.__qualname__}"
    if isinstance(v, PyObj):
        return z3.BoolVal(isinstance(v.obj, cls))
    if isinstance(v, STuple):
        return z3.BoolVal(cls in (tuple, object))
    if isinstance(v, Empty):
        return z3.BoolVal(cls in ({"list": list, "dict": dict, "set": set}[v.kind], object))
    ty = v.ty
    if isinstance(ty, TOpt):
        dt = E.U.dt(ty)
        return z3.And(dt.is_some(v.t), isinstance_(E, SVal(dt.get(v.t), ty.inner), cls, st))
    if ty is NONE:
        return z3.BoolVal(cls is type(None))
    prim = {INT: int, BOOL: bool, STR: str}
    if ty in prim:
        return z3.BoolVal(issubclass(prim[ty], cls))
    if isinstance(ty, TList):
        return z3.BoolVal(cls in (list, object))
    if isinstance(ty, TDict):
        return z3.BoolVal(issubclass(dict, cls) or (getattr(ty, "cls", None) is not None and _alias_sub(E, ty.cls, cls)))
    if isinstance(ty, TSet):
        return z3.BoolVal(cls in (set, object))
    if isinstance(ty, TTuple):
        return z3.BoolVal(cls in (tuple, object))
    if isinstance(ty, (TRef, TVal)):
        rec = E.U.record_of(ty.cls)
        if rec is not None and rec.pyclass is not None:
            try:
                if issubclass(rec.pyclass, cls):
                    return z3.BoolVal(True)
                if isinstance(ty, TVal):
                    return z3.BoolVal(False)
            except TypeError:
                pass
        if isinstance(ty, TRef):
            E.cls_id(qn)
            E.cls_id(ty.cls)
            rs = E.rec_sub
            return rs(E.cls_of(v.t), z3.IntVal(E.cls_id(qn)))
        return z3.BoolVal(False)
    if ty is OPAQUE:
        f = E.uf("isinstance_" + _m(qn), [E.U.U], z3.BoolSort())
        return f(v.t)
    if ty is EXC:
        if issubclass(cls, BaseException):
            return E.exc_sub(E.exc_cls(v.t), z3.IntVal(E.exc_id(cls)))
        return z3.BoolVal(False)
    raise OutsideSubset(f"isinstance on {ty}")


def _alias_sub(E, tagged, cls):
    try:
        k = locate.resolve(tagged)[0]
        return issubclass(k, cls)
    except Exception:
        return False


def b_str(E, args, kw, st, node):
    if not args:
        yield st, E.const("")
        return
    yield st, E.to_str(args[0], st)


def b_int(E, args, kw, st, node):
    v = _mat(E, args[0], st)
    if v.ty is INT:
        yield st, v
        return
    if v.ty is BOOL:
        yield st, E.coerce(v, INT, st)
        return
    if v.ty is STR:
        ok = E.uf("is_numeral", [z3.StringSort()], z3.BoolSort())(v.t)
        st = E.guard(st, ok, ValueError, "int() of a non-numeral")
        if st is None:
            return
        yield st, SVal(E.uf("int_of_str", [z3.StringSort()], z3.IntSort())(v.t), INT)
        return
    if v.ty is OPAQUE:
        ok = E.uf("int_ok_U", [E.U.U], z3.BoolSort())(v.t)
        st = E.guard(st, ok, ValueError, "int() of opaque")
        if st is None:
            return
        yield st, SVal(E.uf("int_of_U", [E.U.U], z3.IntSort())(v.t), INT)
        return
    raise OutsideSubset(f"int() of {v.ty}")


def b_bool(E, args, kw, st, node):
    if not args:
        yield st, E.const(False)
        return
    yield st, SVal(E.truthy(args[0], st), BOOL)


def b_list(E, args, kw, st, node):
    if not args:
        yield st, Empty("list")
        return
    v = args[0]
    if isinstance(v, Empty):
        yield st, Empty("list")
        return
    if isinstance(v, IterView) and v.kind == "gen":
        from .comp import list_comp_from_gen
        yield from list_comp_from_gen(E, v, st)
        return
    s = seq_of(E, v, st)
    yield st, SVal(s.t, s.ty)


def b_tuple(E, args, kw, st, node):
    if not args:
        yield st, STuple([])
        return
    v = args[0]
    if isinstance(v, STuple):
        yield st, v
        return
    s = seq_of(E, v, st)
    yield st, SVal(s.t, s.ty)      # a tuple of unknown arity is modelled as a sequence


def b_set(E, args, kw, st, node):
    if not args:
        yield st, Empty("set")
        return
    v = args[0]
    if isinstance(v, Empty):
        yield st, Empty("set")
        return
    if isinstance(v, IterView) and v.kind == "gen":
        from .comp import set_comp_from_gen
        yield from set_comp_from_gen(E, v, st)
        return
    if isinstance(v, SVal) and isinstance(v.ty, TSet):
        yield st, SVal(v.t, v.ty)
        return
    s = seq_of(E, v, st)
    x = z3.Const(f"x!set{next(E.n)}", E.U.sort(s.ty.elem))
    yield st, SVal(z3.Lambda([x], E.seq_member(s.t, x)), TSet(s.ty.elem))


def b_dict(E, args, kw, st, node):
    if not args and not kw:
        yield st, Empty("dict")
        return
    v = args[0]
    if isinstance(v, SVal) and isinstance(v.ty, TDict):
        yield st, SVal(v.t, v.ty)
        return
    raise OutsideSubset("dict(...)")


def sorted_of(E, s, st):
    """sorted(xs): an uninterpreted function of the *multiset* of elements - here of the set when built from a set"""
    raise OutsideSubset("sorted_of")


def _permutation_of(E, s, st, tag):
    """an ordering of the list decided by a key function the engine does not interpret: some permutation (same length, same members)"""
    r = E.fresh(s.ty, tag)
    st.assume(Q.Length(r.t) == Q.Length(s.t))
    x = z3.Const(f"x!prm{next(E.n)}", E.U.sort(s.ty.elem))
    st.assume(z3.ForAll([x], E.seq_member(r.t, x) == E.seq_member(s.t, x)))
    E.assumptions.add("sorted(xs, key=...) / xs.sort(key=...): an arbitrary permutation of xs (the key function is not interpreted)")
    return r


def b_sorted(E, args, kw, st, node):
    v = args[0]
    if kw:
        if set(kw) <= {"key", "reverse"} and not (isinstance(v, SVal) and isinstance(v.ty, TSet)):
            yield st, _permutation_of(E, seq_of(E, v, st), st, "sorted_by_key")
            return
        raise OutsideSubset("sorted with key")
    if isinstance(v, SVal) and isinstance(v.ty, TSet):
        sset = v
    else:
        s = seq_of(E, v, st)
        origin_set = getattr(s, "_from_set", None)
        # list(set) pattern: recover the set when the sequence is a set enumeration
        sset = E.set_enum_source.get(s.t.get_id()) if hasattr(E, "set_enum_source") else None
        if sset is None:
            f = E.uf("sorted_seq_" + _m(s.ty.key), [E.U.sort(s.ty)], E.U.sort(s.ty))
            r = SVal(f(s.t), s.ty)
            st.assume(Q.Length(r.t) == Q.Length(s.t))
            x = z3.Const(f"x!srt{next(E.n)}", E.U.sort(s.ty.elem))
            st.assume(z3.ForAll([x], E.seq_member(r.t, x) == E.seq_member(s.t, x)))
            E.assumptions.add("sorted(list): permutation (same length, same members) as an uninterpreted function of the list")
            yield st, r
            return
    ety = sset.ty.elem
    f = E.uf("sorted_of_" + _m(sset.ty.key), [E.U.sort(sset.ty)], Q.list_sort(E.U.sort(ety)))
    r = SVal(f(sset.t), TList(ety))
    i, j = z3.Ints(f"i!srt{next(E.n)} j!srt{next(E.n)}")
    x = z3.Const(f"x!srt{next(E.n)}", E.U.sort(ety))
    n = Q.Length(r.t)
    st.assume(z3.ForAll([i], z3.Implies(z3.And(0 <= i, i < n), z3.Select(sset.t, Q.At(r.t, i)))))
    st.assume(z3.ForAll([x], z3.Implies(z3.Select(sset.t, x), E.seq_member(r.t, x))))
    st.assume(z3.ForAll([i, j], z3.Implies(z3.And(0 <= i, i < j, j < n), Q.At(r.t, i) != Q.At(r.t, j))))
    E.assumptions.add("sorted(set): duplicate-free enumeration that is a function of the set (order axioms not needed)")
    yield st, r


def b_enumerate(E, args, kw, st, node):
    yield st, IterView("enumerate", args[0], args[1] if len(args) > 1 else kw.get("start"))


def b_range(E, args, kw, st, node):
    a = [E.coerce(x, INT, st) for x in args]
    if len(a) == 1:
        yield st, IterView("range", E.const(0), a[0])
    elif len(a) == 2:
        yield st, IterView("range", a[0], a[1])
    else:
        raise OutsideSubset("range with step")


def b_zip(E, args, kw, st, node):
    yield st, IterView("zip", list(args))


def b_hasattr(E, args, kw, st, node):
    v, name = args
    if isinstance(v, SVal) and v.ty is OPAQUE and isinstance(name, SVal) and z3.is_string_value(name.t):
        f = E.uf("hasattr_" + name.t.as_string(), [E.U.U], z3.BoolSort())
        yield st, SVal(f(v.t), BOOL)
        return
    raise OutsideSubset("hasattr")


def b_getattr(E, args, kw, st, node):
    v, name = args[0], args[1]
    if isinstance(name, SVal) and z3.is_string_value(name.t):
        nm = name.t.as_string()
        if isinstance(v, SVal) and isinstance(v.ty, TRef):
            rec = E.U.record_of(v.ty.cls)
            has = E.U.field_ty(v.ty.cls, nm) is not None or (rec and rec.pyclass is not None and hasattr(rec.pyclass, nm))
            if has:
                yield from E.getattr_(v, nm, st, node)
                return
            if len(args) > 2:
                # subclass may define it: uninterpreted "has method" predicate
                f = E.uf("defines_" + nm, [E.U.Ref], z3.BoolSort())
                for br, s2 in E.branch(st, f(v.t)):
                    if br:
                        yield s2, BoundM(v, nm)
                    else:
                        yield s2, args[2]
                return
    raise OutsideSubset("getattr")


def b_min(E, args, kw, st, node):
    raise OutsideSubset("min/max")


def b_type(E, args, kw, st, node):
    raise OutsideSubset("type()")


def b_open(E, args, kw, st, node):
    from .fsmodel import open_file
    yield from open_file(E, args, kw, st, node)


def b_next(E, args, kw, st, node):
    raise OutsideSubset("next()")


def b_sum(E, args, kw, st, node):
    """sum of a list of ints through an uninterpreted function with the facts the solver can use: the empty sum is 0, a sum of
    non-negative numbers is non-negative, and a sum of ones is the length (the `sum(1 for x in xs if p(x))` counting idiom)"""
    if len(args) != 1 or kw:
        raise OutsideSubset("sum() with a start value")
    l = seq_of(E, args[0], st)
    if not (isinstance(l.ty, TList) and l.ty.elem is INT):
        raise OutsideSubset("sum() of non-integers")
    srt = E.U.sort(l.ty)
    first = not any(k[0] == "sum!int" for k in E.ufs)
    f = E.uf("sum!int", [srt], z3.IntSort())
    if first:
        xs = z3.Const("xs!sum", srt)
        i = z3.Int("i!sum")
        inr = z3.And(0 <= i, i < Q.Length(xs))
        E.axioms.append(z3.ForAll([xs], z3.Implies(Q.Length(xs) == 0, f(xs) == 0), patterns=[f(xs)]))
        E.axioms.append(z3.ForAll([xs], z3.Implies(z3.ForAll([i], z3.Implies(inr, Q.At(xs, i) >= 0)), f(xs) >= 0), patterns=[f(xs)]))
        E.axioms.append(z3.ForAll([xs], z3.Implies(z3.ForAll([i], z3.Implies(inr, Q.At(xs, i) == 1)), f(xs) == Q.Length(xs)), patterns=[f(xs)]))
        E.assumptions.add("sum(): characterised only for empty lists, lists of non-negative numbers (>= 0) and lists of ones (== length)")
    yield st, SVal(f(l.t), INT)


def b_print(E, args, kw, st, node):
    yield st, SVal(None, NONE)


def b_id(E, args, kw, st, node):
    yield st, args[0]


BUILTINS = {"any": b_any, "all": b_all, "len": b_len, "isinstance": b_isinstance, "str": b_str, "int": b_int, "bool": b_bool, "list": b_list,
            "tuple": b_tuple, "set": b_set, "dict": b_dict, "sorted": b_sorted, "enumerate": b_enumerate, "range": b_range,
            "zip": b_zip, "hasattr": b_hasattr, "getattr": b_getattr, "min": b_min, "max": b_min, "type": b_type,
            "open": b_open, "next": b_next, "sum": b_sum, "print": b_print, "frozenset": b_set}


# library functions modelled structurally ---------------------------------------------------------
def l_cast(E, args, kw, st, node):
    yield st, args[1]


def l_chain(E, args, kw, st, node):
    parts = []
    for a in args:
        if isinstance(a, tuple) and a and a[0] == "*":
            inner = a[1]
            yield st, IterView("chain*", inner)
            return
        parts.append(a)
    yield st, IterView("chain", parts)


def l_dict_fromkeys(E, args, kw, st, node):
    """dict.fromkeys(xs) used as an order-preserving de-duplication: modelled as the list of its keys - same members as xs, no repeats,
    not longer than xs (the relative order of first occurrences is not axiomatised)"""
    if len(args) != 1:
        raise OutsideSubset("dict.fromkeys with a value")
    s = seq_of(E, args[0], st)
    r = E.fresh(s.ty, "fromkeys")
    x = z3.Const(f"x!fk{next(E.n)}", E.U.sort(s.ty.elem))
    i, j = z3.Ints(f"i!fk{next(E.n)} j!fk{next(E.n)}")
    n = Q.Length(r.t)
    st.assume(z3.ForAll([x], E.seq_member(r.t, x) == E.seq_member(s.t, x)))
    st.assume(z3.ForAll([i, j], z3.Implies(z3.And(0 <= i, i < j, j < n), Q.At(r.t, i) != Q.At(r.t, j))))
    st.assume(n <= Q.Length(s.t))
    E.assumptions.add("dict.fromkeys(xs): the list of distinct members of xs (order of first occurrences not axiomatised)")
    yield st, r


def l_chain_from_iterable(E, args, kw, st, node):
    yield st, IterView("chain*", args[0])


def l_replace(E, args, kw, st, node):
    """dataclasses.replace(obj, **changes) on a value record"""
    v = args[0]
    if isinstance(v, SVal) and isinstance(v.ty, TVal):
        fields = E.U.all_fields(v.ty.cls)
        dt = E.U.dt(v.ty)
        vals = []
        for i, (f, fty) in enumerate(fields.items()):
            if f in kw:
                vals.append(E.coerce(kw[f], fty, st).t)
            else:
                vals.append(dt.accessor(0, i)(v.t))
        yield st, SVal(dt.mk(*vals), v.ty)
        return
    raise OutsideSubset("dataclasses.replace on a non-value record")


def l_partial(E, args, kw, st, node):
    raise OutsideSubset("functools.partial")


def l_tomlkit_dump(E, args, kw, st, node):
    from .fsmodel import FileHandle, handle_method
    doc, fh = args[0], args[1]
    if not isinstance(fh, FileHandle):
        raise OutsideSubset("tomlkit.dump to a non-file")
    text = SVal(E.uf("fn_tomlkit_api_dumps", [E.U.U, z3.BoolSort()], z3.StringSort())(E.coerce(doc, OPAQUE, st).t, z3.BoolVal(False)), STR)
    yield from handle_method(E, fh, "write", [text], {}, st, node)


LIBFUNCS = {"tomlkit.api.dump": l_tomlkit_dump, "typing.cast": l_cast, "itertools.chain": l_chain, "itertools.chain.from_iterable": l_chain_from_iterable, "builtins.dict.fromkeys": l_dict_fromkeys,
            "dataclasses.replace": l_replace}


# =================================================================================================
# spec forms
def s_implies(E, args, kw, st, node):
    yield st, SVal(z3.Implies(E.truthy(args[0], st), E.truthy(args[1], st)), BOOL)


def s_iff(E, args, kw, st, node):
    yield st, SVal(E.truthy(args[0], st) == E.truthy(args[1], st), BOOL)


def s_any(E, args, kw, st, node):
    t = args[0]
    if isinstance(t, SVal) and z3.is_string_value(t.t):
        yield st, AnyOf(E.U.parse(t.t.as_string()))
        return
    raise OutsideSubset("ANY(type string)")


def s_store(E, args, kw, st, node):
    m, k, v = args
    if isinstance(m.ty, TMap):
        yield st, SVal(z3.Store(m.t, E.coerce(k, m.ty.k, st).t, E.coerce(v, m.ty.v, st).t), m.ty)
        return
    if isinstance(m.ty, TDict):
        dt = E.U.dt(m.ty)
        kk = E.coerce(k, m.ty.k, st)
        vv = E.coerce(v, m.ty.v, st)
        yield st, SVal(dt.mkdict(z3.Store(dt.dom(m.t), kk.t, z3.BoolVal(True)), z3.Store(dt.val(m.t), kk.t, vv.t)), m.ty)
        return
    raise OutsideSubset("store on non-dict")


def s_ite(E, args, kw, st, node):
    yield st, E.ite(E.truthy(args[0], st), args[1], args[2], st)


def s_distinct(E, args, kw, st, node):
    """distinct(seq): no duplicates"""
    s = seq_of(E, args[0], st)
    i, j = z3.Ints(f"i!dst{next(E.n)} j!dst{next(E.n)}")
    n = Q.Length(s.t)
    yield st, SVal(z3.ForAll([i, j], z3.Implies(z3.And(0 <= i, i < j, j < n), Q.At(s.t, i) != Q.At(s.t, j))), BOOL)


def s_none(E, args, kw, st, node):
    yield st, SVal(None, NONE)


def s_dom(E, args, kw, st, node):
    yield st, E.dict_keys(args[0])


def s_lookup(E, args, kw, st, node):
    """lookup(d, k, default): total dict read"""
    d, k, dflt = args
    if isinstance(d.ty, TOpt):
        d = SVal(E.U.dt(d.ty).get(d.t), d.ty.inner)
    dt = E.U.dt(d.ty)
    kk = E.coerce(k, d.ty.k, st)
    dv = E.coerce(dflt, d.ty.v, st)
    yield st, SVal(z3.If(z3.Select(dt.dom(d.t), kk.t), z3.Select(dt.val(d.t), kk.t), dv.t), d.ty.v)


def s_subset(E, args, kw, st, node):
    a, b = args
    x = z3.Const(f"x!sub{next(E.n)}", E.U.sort(a.ty.elem))
    yield st, SVal(z3.ForAll([x], z3.Implies(z3.Select(a.t, x), z3.Select(b.t, x))), BOOL)


def s_typed_empty(E, args, kw, st, node):
    t = args[0]
    yield st, E.empty_of(E.U.parse(t.t.as_string()))


def s_exc_code(E, args, kw, st, node):
    f = E.uf("exc_code", [E.U.Exc], z3.IntSort())
    yield st, SVal(f(args[0].t), INT)


def s_utf8(E, args, kw, st, node):
    from .fsmodel import utf8, ensure_codec_axioms
    ensure_codec_axioms(E)
    yield st, SVal(utf8(E)(E.coerce(args[0], STR, st).t), BYTES)


def s_decode(E, args, kw, st, node):
    from .fsmodel import decode, ensure_codec_axioms
    ensure_codec_axioms(E)
    yield st, SVal(decode(E)(E.coerce(args[0], BYTES, st).t), STR)


def s_decodable(E, args, kw, st, node):
    yield st, SVal(E.uf("decodable", [E.U.Bytes], z3.BoolSort())(E.coerce(args[0], BYTES, st).t), BOOL)


def s_list_set(E, args, kw, st, node):
    """list_set(xs, i, v): xs with element i replaced"""
    xs, i, v = args
    yield st, SVal(Q.Update(xs.t, E.coerce(i, INT, st).t, E.coerce(v, xs.ty.elem, st).t), xs.ty)


def s_val_of(E, args, kw, st, node):
    v = args[0]
    if isinstance(v, SVal) and isinstance(v.ty, TOpt):
        yield st, SVal(E.U.dt(v.ty).get(v.t), v.ty.inner)
    else:
        yield st, v


SPEC_FORMS = {"val_of": s_val_of, "list_set": s_list_set, "utf8": s_utf8, "decode_utf8": s_decode, "decodable": s_decodable, "exc_code": s_exc_code, "implies": s_implies, "iff": s_iff, "ANY": s_any, "store": s_store, "ite": s_ite, "distinct": s_distinct,
              "none": s_none, "dom": s_dom, "lookup": s_lookup, "subset": s_subset, "typed_empty": s_typed_empty}


# =================================================================================================
# methods
def call_method(E, bm, args, kw, st, node):
    recv, name, lv = bm.recv, bm.name, bm.lv
    from .calls import SuperProxy, apply_contract, call_repo, unknown_call, dispatch
    if isinstance(recv, PyObj):
        if isinstance(recv.obj, SuperProxy):
            yield from super_call(E, recv.obj, name, args, kw, st, node)
            return
        yield from dispatch(E, PyObj(getattr(recv.obj, name)), args, kw, st, node)
        return
    if isinstance(recv, Empty):
        yield from empty_method(E, recv, name, lv, args, kw, st, node)
        return
    if isinstance(recv, STuple):
        raise OutsideSubset(f"tuple method {name}")
    from .fsmodel import FileHandle, handle_method
    if isinstance(recv, FileHandle):
        yield from handle_method(E, recv, name, args, kw, st, node)
        return
    ty = recv.ty
    if isinstance(ty, TOpt) or ty is NONE:
        st, recv = E.unwrap(recv, st, f"receiver of .{name}")
        if st is None:
            return
        ty = recv.ty
    if lv is None:
        lv = recv.origin
    # nominally tagged container (dict subclass): repo-defined methods first, through the real MRO
    tag = getattr(ty, "cls", None) if isinstance(ty, (TDict, TList, TSet)) else None
    if tag is not None:
        k = locate.resolve(tag)[0]
        dyn = None
        for kk in k.__mro__:
            dyn = E.reg.contracts.get(f"dyn:{kk.__name__}.{name}")
            if dyn is not None:
                break
        if dyn is not None and not getattr(st, "static_dispatch", False):
            yield from apply_contract(E, dyn, None, [SVal(recv.t, recv.ty, lv)] + args, kw, st, node)
            return
        for kk in k.__mro__:
            if name in kk.__dict__:
                if kk.__module__ != "builtins":
                    raw = kk.__dict__[name]
                    fn, kind, dropped = locate.unwrap(raw)
                    qn = f"{kk.__module__}.{kk.__qualname__}.{name}"
                    recv2 = SVal(recv.t, recv.ty, lv)
                    a0 = [PyObj(k)] if kind == "classmethod" else [recv2]
                    if qn in E.reg.contracts and not E.reg.contracts[qn].inline:
                        yield from apply_contract(E, E.reg.contracts[qn], fn, a0 + args, kw, st, node)
                    else:
                        yield from call_repo(E, fn, qn, a0 + args, kw, st, dropped, node, owner=kk)
                    return
                break
    if isinstance(ty, TList):
        yield from list_method(E, recv, name, lv, args, kw, st, node)
    elif isinstance(ty, TDict):
        yield from dict_method(E, recv, name, lv, args, kw, st, node)
    elif isinstance(ty, TSet):
        yield from set_method(E, recv, name, lv, args, kw, st, node)
    elif ty is STR:
        yield from str_method(E, recv, name, args, kw, st, node)
    elif isinstance(ty, (TRef, TVal)):
        rec = E.U.record_of(ty.cls)
        if rec is None or rec.pyclass is None:
            raise OutsideSubset(f"method {name} on {ty.cls}: class not importable")
        dyn = E.reg.contracts.get(f"dyn:{rec.short}.{name}")
        if dyn is None:
            for kk in rec.pyclass.__mro__[1:]:
                dyn = E.reg.contracts.get(f"dyn:{kk.__name__}.{name}")
                if dyn is not None:
                    break
        if dyn is not None and not getattr(st, "static_dispatch", False):
            # overridable method on a value of declared base type: the dynamic-dispatch contract (every override
            # carries a refinement obligation against it)
            yield from apply_contract(E, dyn, None, [recv] + args, kw, st, node)
            return
        raw = None
        for kk in rec.pyclass.__mro__:
            if name in kk.__dict__:
                raw = kk.__dict__[name]
                break
        if raw is None:
            raise OutsideSubset(f"no method {name} on {ty.cls}")
        fn, kind, dropped = locate.unwrap(raw)
        qn = f"{kk.__module__}.{kk.__qualname__}.{name}"
        a0 = [PyObj(rec.pyclass)] if kind == "classmethod" else ([] if kind == "staticmethod" else [recv])
        c = E.reg.contracts.get(qn)
        if c is not None and not c.inline and not ((st.nofork or st.spec) and not (c.trusted or c.functional)):
            yield from apply_contract(E, c, fn, a0 + args, kw, st, node)
        elif inspect.isfunction(fn) and (fn.__module__ or "").split(".")[0] in ("codemodder", "core_codemods"):
            yield from call_repo(E, fn, qn, a0 + args, kw, st, dropped, node, owner=kk)
        else:
            yield from unknown_call(E, qn, args, kw, st, node)
    elif ty is OPAQUE:
        qn = f"opaque.{name}"
        c = E.reg.contracts.get(qn)
        if c is not None:
            yield from apply_contract(E, c, None, [recv] + args, kw, st, node)
        else:
            yield from unknown_call(E, qn, args, kw, st, node)
    elif ty is BYTES:
        qn = f"bytes.{name}"
        c = E.reg.contracts.get(qn)
        if c is not None:
            yield from apply_contract(E, c, None, [recv] + args, kw, st, node)
        else:
            yield from unknown_call(E, qn, args, kw, st, node)
    else:
        raise OutsideSubset(f"method {name} on {ty}")


def super_call(E, sp, name, args, kw, st, node):
    from .calls import apply_contract, call_repo
    me = sp.self_val
    if isinstance(me, SVal) and isinstance(me.ty, TDict):
        tag = getattr(me.ty, "cls", None)
        k = locate.resolve(tag)[0] if tag else dict
        mro = list(k.__mro__)
        start = mro.index(sp.after_cls) + 1 if sp.after_cls in mro else 0
        for kk in mro[start:]:
            if name in kk.__dict__:
                if kk.__module__ == "builtins":
                    yield from dict_method(E, me, name, sp.lv, args, kw, st, node)
                else:
                    fn = locate.unwrap(kk.__dict__[name])[0]
                    yield from call_repo(E, fn, f"{kk.__module__}.{kk.__qualname__}.{name}", [me] + args, kw, st, (), node, owner=kk)
                return
    if isinstance(me, SVal) and isinstance(me.ty, (TRef, TVal)):
        rec = E.U.record_of(me.ty.cls)
        # dispatch starts after the class that defines the running method
        mro = list(rec.pyclass.__mro__)
        start = mro.index(sp.after_cls) + 1 if sp.after_cls in mro else 1
        for kk in mro[start:]:
            if name in kk.__dict__:
                fn, kind, dropped = locate.unwrap(kk.__dict__[name])
                qn = f"{kk.__module__}.{kk.__qualname__}.{name}"
                c = E.reg.contracts.get(qn)
                if c is not None and not c.inline:
                    yield from apply_contract(E, c, fn, [me] + args, kw, st, node)
                elif inspect.isfunction(fn) and fn.__module__.split(".")[0] in ("codemodder", "core_codemods"):
                    yield from call_repo(E, fn, qn, [me] + args, kw, st, dropped, node, owner=kk)
                else:
                    from .calls import unknown_call
                    yield from unknown_call(E, qn, args, kw, st, node)
                return
    raise OutsideSubset(f"super().{name}")


def _strip_known_some(E, v, st):
    """an Optional value that the path condition already knows to be present is handed on as the value itself
    (`if x.f is not None: xs.append(x.f)`: attribute chains cannot be re-bound by narrowing)"""
    if isinstance(v, SVal) and isinstance(v.ty, TOpt) and v.t is not None:
        dt = E.U.dt(v.ty)
        if not E.feasible(st, z3.Not(dt.is_some(v.t))):
            return SVal(dt.get(v.t), v.ty.inner, v.origin)
    return v


def empty_method(E, recv, name, lv, args, kw, st, node):
    kind = recv.kind
    if kind == "list" and name == "append":
        v = _strip_known_some(E, _mat(E, args[0], st), st)
        nv = SVal(Q.Unit(v.t), TList(v.ty))
        E.mutate(st, lv, recv, nv)
        yield st, SVal(None, NONE)
        return
    if kind == "list" and name == "extend":
        a = args[0]
        if isinstance(a, Empty):
            yield st, SVal(None, NONE)
            return
        s = seq_of(E, a, st)
        E.mutate(st, lv, recv, SVal(s.t, s.ty))
        yield st, SVal(None, NONE)
        return
    if kind == "set" and name == "add":
        v = _mat(E, args[0], st)
        nv = SVal(z3.Store(z3.K(E.U.sort(v.ty), z3.BoolVal(False)), v.t, z3.BoolVal(True)), TSet(v.ty))
        E.mutate(st, lv, recv, nv)
        yield st, SVal(None, NONE)
        return
    if kind == "list" and name == "copy":
        yield st, Empty("list")
        return
    if kind == "dict" and name in ("get",):
        yield st, (args[1] if len(args) > 1 else SVal(None, NONE))
        return
    if kind == "dict" and name in ("keys", "values", "items"):
        yield st, Empty("list")
        return
    raise OutsideSubset(f"method {name} on an untyped empty {kind}")


def list_method(E, recv, name, lv, args, kw, st, node):
    ty = recv.ty
    if name == "append":
        v = E.coerce(_strip_known_some(E, args[0], st) if isinstance(args[0], SVal) else args[0], ty.elem, st)
        E.mutate(st, lv, recv, SVal(Q.Concat(recv.t, Q.Unit(v.t)), ty))
        yield st, SVal(None, NONE)
    elif name == "extend":
        a = args[0]
        if isinstance(a, Empty):
            yield st, SVal(None, NONE)
            return
        if isinstance(a, IterView) and a.kind == "gen":
            from .comp import list_comp_from_gen
            for s2, lst in list_comp_from_gen(E, a, st):
                E.mutate(s2, lv, recv, SVal(Q.Concat(recv.t, E.coerce(lst, ty, s2).t), ty))
                yield s2, SVal(None, NONE)
            return
        s = E.coerce(seq_of(E, a, st), ty, st)
        E.mutate(st, lv, recv, SVal(Q.Concat(recv.t, s.t), ty))
        yield st, SVal(None, NONE)
    elif name == "copy":
        yield st, SVal(recv.t, ty)
    elif name == "index":
        v = E.coerce(args[0], ty.elem, st)
        st = E.guard(st, E.seq_member(recv.t, v.t), ValueError, "list.index: not in list")
        if st is None:
            return
        i = z3.Int(E.fresh_name("index_of"))
        j = z3.Int(E.fresh_name("ij"))
        st.assume(z3.And(0 <= i, i < Q.Length(recv.t), Q.At(recv.t, i) == v.t,
                         z3.ForAll([j], z3.Implies(z3.And(0 <= j, j < i), Q.At(recv.t, j) != v.t))))
        yield st, SVal(i, INT)
    elif name == "count":
        raise OutsideSubset("list.count")
    elif name == "insert":
        i = E.coerce(args[0], INT, st)
        v = E.coerce(args[1], ty.elem, st)
        n = Q.Length(recv.t)
        E.mutate(st, lv, recv, SVal(Q.Concat(Q.Extract(recv.t, 0, i.t), Q.Unit(v.t), Q.Extract(recv.t, i.t, n - i.t)), ty))
        yield st, SVal(None, NONE)
    elif name == "pop":
        n = Q.Length(recv.t)
        if args:
            i0 = E.coerce(args[0], INT, st).t
            i = z3.If(i0 < 0, i0 + n, i0)
        else:
            i = n - 1
        st = E.guard(st, z3.And(0 <= i, i < n), IndexError, "list.pop: empty list / index out of range")
        if st is None:
            return
        v = SVal(Q.At(recv.t, i), ty.elem)
        E.mutate(st, lv, recv, SVal(Q.Concat(Q.Extract(recv.t, 0, i), Q.Extract(recv.t, i + 1, n - i - 1)), ty))
        yield st, v
    elif name == "clear":
        E.mutate(st, lv, recv, SVal(Q.Empty(recv.t.sort()), ty))
        yield st, SVal(None, NONE)
    elif name == "keys" and not args:
        yield st, recv          # the key view of a dict.fromkeys(...) de-duplication (modelled as the list of keys)
    elif name in ("sort", "reverse"):
        E.mutate(st, lv, recv, _permutation_of(E, SVal(recv.t, ty), st, "sorted_in_place"))
        yield st, SVal(None, NONE)
    else:
        raise OutsideSubset(f"list.{name}")


def dict_method(E, recv, name, lv, args, kw, st, node):
    ty = recv.ty
    dt = E.U.dt(ty)
    dom, val = dt.dom(recv.t), dt.val(recv.t)
    if name == "get":
        k = E.coerce(args[0], ty.k, st)
        dflt = args[1] if len(args) > 1 else kw.get("default", SVal(None, NONE))
        present = z3.Select(dom, k.t)
        got = SVal(z3.Select(val, k.t), ty.v, LV("key", lv, k) if lv is not None else None)
        if isinstance(dflt, SVal) and dflt.ty is NONE:
            rty = opt(ty.v)
            # d.get(k) of a present key IS the stored object: keep the place it was read from (write-through for in-place mutation)
            yield st, SVal(z3.If(present, E.coerce(got, rty, st).t, E.coerce(dflt, rty, st).t), rty, got.origin)
        else:
            d2 = E.coerce(dflt, ty.v, st)
            yield st, SVal(z3.If(present, got.t, d2.t), ty.v)
    elif name == "keys":
        yield st, SVal(dom, TSet(ty.k), None)
    elif name == "values":
        ks = dict_order(E, recv, st)
        # values in key order: map through an uninterpreted sequence with pointwise axiom
        r = E.fresh(TList(ty.v), "dict_values")
        i = z3.Int(f"i!dv{next(E.n)}")
        st.assume(Q.Length(r.t) == Q.Length(ks.t))
        st.assume(z3.ForAll([i], z3.Implies(z3.And(0 <= i, i < Q.Length(ks.t)), Q.At(r.t, i) == z3.Select(val, Q.At(ks.t, i)))))
        yield st, r
    elif name == "items":
        yield st, IterView("items", recv)
    elif name == "setdefault":
        k = E.coerce(args[0], ty.k, st)
        dflt = E.coerce(args[1], ty.v, st)
        present = z3.Select(dom, k.t)
        nval = z3.If(present, z3.Select(val, k.t), dflt.t)
        nd = SVal(dt.mkdict(z3.Store(dom, k.t, z3.BoolVal(True)), z3.Store(val, k.t, nval)), ty)
        E.mutate(st, lv, recv, nd)
        yield st, SVal(nval, ty.v, LV("key", lv, k) if lv is not None else None)
    elif name in ("update", "__ior__"):
        o = args[0]
        if isinstance(o, Empty):
            yield st, (recv if name == "__ior__" else SVal(None, NONE))
            return
        o = E.coerce(o, ty, st)
        nd = E.dict_union(recv, o)
        nd = SVal(nd.t, ty)
        E.mutate(st, lv, recv, nd)
        yield st, (nd if name == "__ior__" else SVal(None, NONE))
    elif name == "__or__":
        o = E.coerce(args[0], ty, st)
        nd = E.dict_union(recv, o)
        yield st, SVal(nd.t, TDict(ty.k, ty.v))
    elif name == "copy":
        yield st, SVal(recv.t, ty)
    elif name == "pop":
        raise OutsideSubset("dict.pop")
    else:
        raise OutsideSubset(f"dict.{name}")


def set_method(E, recv, name, lv, args, kw, st, node):
    ty = recv.ty
    if name == "add":
        v = E.coerce(args[0], ty.elem, st)
        E.mutate(st, lv, recv, SVal(z3.Store(recv.t, v.t, z3.BoolVal(True)), ty))
        yield st, SVal(None, NONE)
    elif name == "update":
        a = args[0]
        if isinstance(a, Empty):
            yield st, SVal(None, NONE)
            return
        if isinstance(a, IterView) and a.kind == "gen":
            from .comp import set_comp_from_gen
            for s2, sv in set_comp_from_gen(E, a, st):
                E.mutate(s2, lv, recv, SVal(E.set_union(recv.t, E.coerce(sv, ty, s2).t, ty), ty))
                yield s2, SVal(None, NONE)
            return
        if isinstance(a, SVal) and isinstance(a.ty, TSet):
            o = a
        else:
            s = seq_of(E, a, st)
            x = z3.Const(f"x!su{next(E.n)}", E.U.sort(ty.elem))
            o = SVal(z3.Lambda([x], E.seq_member(E.coerce(s, TList(ty.elem), st).t, x)), ty)
        E.mutate(st, lv, recv, SVal(E.set_union(recv.t, o.t, ty), ty))
        yield st, SVal(None, NONE)
    elif name == "copy":
        yield st, SVal(recv.t, ty)
    else:
        raise OutsideSubset(f"set.{name}")


def str_method(E, recv, name, args, kw, st, node):
    S = z3.StringSort()
    if name == "startswith":
        a = args[0]
        if isinstance(a, STuple):
            yield st, SVal(z3.Or([z3.PrefixOf(E.coerce(x, STR, st).t, recv.t) for x in a.items]), BOOL)
        else:
            yield st, SVal(z3.PrefixOf(E.coerce(a, STR, st).t, recv.t), BOOL)
    elif name == "endswith":
        yield st, SVal(z3.SuffixOf(E.coerce(args[0], STR, st).t, recv.t), BOOL)
    elif name == "split":
        sep = E.coerce(args[0], STR, st) if args else E.const(" ")
        f = E.uf("str_split", [S, S], Q.list_sort(S))
        r = SVal(f(recv.t, sep.t), TList(STR))
        if not getattr(E, "_split_ax", False):
            E._split_ax = True
            a, b = z3.String("s!split"), z3.String("sep!split")
            app = f(a, b)
            E.axioms.append(z3.ForAll([a, b], z3.And(Q.Length(app) >= 1,
                                                     (Q.Length(app) == 1) == z3.Not(E.str_contains(a, b)),
                                                     z3.Implies(Q.Length(app) == 1, Q.At(app, 0) == a)), patterns=[app]))
        E.assumptions.add("axiom[str.split]: uninterpreted; len >= 1; len == 1 iff sep not in s (then the only piece is s)")
        yield st, r
    elif name in ("strip", "rstrip", "lstrip", "lower", "upper", "title"):
        f = E.uf("str_" + name, [S], S)
        r = SVal(f(recv.t), STR)

        E.assumptions.add(f"str.{name}: uninterpreted total function")
        yield st, r
    elif name == "splitlines":
        f = E.uf("splitlines_ke", [S], Q.list_sort(S))
        E.assumptions.add("str.splitlines(keepends=True): uninterpreted total function")
        yield st, SVal(f(recv.t), TList(STR))
    elif name == "join":
        a = args[0]
        s = seq_of(E, a, st) if not (isinstance(a, IterView) and a.kind == "gen") else None
        if s is None:
            from .comp import list_comp_from_gen
            for s2, lst in list_comp_from_gen(E, a, st):
                f = E.uf("str_join", [S, Q.list_sort(S)], S)
                yield s2, SVal(f(recv.t, E.coerce(lst, TList(STR), s2).t), STR)
            return
        f = E.uf("str_join", [S, Q.list_sort(S)], S)
        E.assumptions.add("str.join: uninterpreted total function of (separator, list)")
        yield st, SVal(f(recv.t, E.coerce(s, TList(STR), st).t), STR)
    elif name == "replace":
        a, b = E.coerce(args[0], STR, st), E.coerce(args[1], STR, st)
        f = E.uf("str_replace_all", [S, S, S], S)
        yield st, SVal(f(recv.t, a.t, b.t), STR)
    elif name == "encode":
        from .fsmodel import utf8, ensure_codec_axioms
        ensure_codec_axioms(E)
        codec = args[0] if args else kw.get("encoding")
        if codec is not None:
            c = E.coerce(codec, STR, st).t
            is_utf8 = z3.simplify(z3.Or(c == z3.StringVal("utf-8"), c == z3.StringVal("utf8")))
            if not z3.is_true(is_utf8):
                # any other codec: an unrelated uninterpreted function of (text, codec name)
                other = E.uf("encode_other", [S, S], E.U.Bytes)
                yield st, SVal(z3.If(is_utf8, utf8(E)(recv.t), other(recv.t, c)), BYTES)
                return
        yield st, SVal(utf8(E)(recv.t), BYTES)
    elif name == "format":
        raise OutsideSubset("str.format")
    else:
        raise OutsideSubset(f"str.{name}")
