"""Quantifiers (any/all over generators) and comprehensions.

any(P(x) for x in xs)  ->  exists i. 0 <= i < len(xs) /\\ P(xs[i])         (unrolled when xs is a literal tuple)
all(...)               ->  forall ...
[e(x) for x in xs]     ->  fresh R with  len(R) == len(xs) /\\ forall i. R[i] == e(xs[i])          (exact)
[e(x) for x in xs if c(x)]
                       ->  R = fold_n(len xs) with fold_n a recursive function over the index (exact semantics), plus the
                           derived membership lemma  v in R <=> exists i. c(xs[i]) /\\ e(xs[i]) == v   (schematic, by list induction)
{e(x) for x in xs if c} -> lambda v. exists i. c(xs[i]) /\\ e(xs[i]) == v
"""
from __future__ import annotations

import ast

import z3

from . import seqs as Q

from .engine import _join_tys, _m
from .ty import *      # noqa
from .values import *  # noqa


_ENGINE = [None]


def bind_target(target, val, frame):
    E = _ENGINE[0]
    if isinstance(target, ast.Name):
        frame[target.id] = val
    elif isinstance(target, (ast.Tuple, ast.List)):
        if isinstance(val, STuple):
            for t, v in zip(target.elts, val.items):
                bind_target(t, v, frame)
        elif isinstance(val, SVal) and isinstance(val.ty, (TTuple, TVal)) and E is not None:
            dt = E.U.dt(val.ty)
            tys = val.ty.elems if isinstance(val.ty, TTuple) else list(E.U.all_fields(val.ty.cls).values())
            if len(tys) != len(target.elts):
                raise OutsideSubset("unpack arity in binder")
            for i, (t, fty) in enumerate(zip(target.elts, tys)):
                bind_target(t, SVal(dt.accessor(0, i)(val.t), fty), frame)
        elif isinstance(val, SVal) and isinstance(val.ty, TTuple):
            raise OutsideSubset("tuple-typed element unpacking in binder")
        else:
            raise OutsideSubset("unpacking a non-tuple in a comprehension")
    else:
        raise OutsideSubset("comprehension target")


def binder(E, it, st):
    _ENGINE[0] = E
    return _binder(E, it, st)


def _binder(E, it, st):
    """-> ('unroll', [values]) | ('sym', [bound consts], guard, element value, index term or None, length term or None)"""
    from .builtins_ import seq_of
    if isinstance(it, STuple):
        return ("unroll", it.items)
    if isinstance(it, Empty):
        return ("unroll", [])
    if isinstance(it, PyObj) and isinstance(it.obj, (list, tuple, set, frozenset)):
        return ("unroll", [PyObj(x) for x in it.obj])
    if isinstance(it, AnyOf):
        x = z3.Const(E.fresh_name("q"), E.U.sort(it.ty))
        return ("sym", [x], z3.BoolVal(True), SVal(x, it.ty), None, None)
    if isinstance(it, IterView):
        if it.kind == "range":
            i = z3.Int(E.fresh_name("qi"))
            lo, hi = it.args
            return ("sym", [i], z3.And(lo.t <= i, i < hi.t), SVal(i, INT), i - lo.t, hi.t - lo.t)
        if it.kind == "enumerate":
            inner = _binder(E, it.args[0], st)
            start = it.args[1]
            if inner[0] == "unroll":
                base = E.coerce(start, INT, st).t if start is not None else z3.IntVal(0)
                return ("unroll", [STuple([SVal(z3.simplify(base + k), INT), v]) for k, v in enumerate(inner[1])])
            _, bs, g, ev, idx, n = inner
            if idx is None:
                raise OutsideSubset("enumerate over an unordered iterable")
            off = E.coerce(start, INT, st).t if start is not None else z3.IntVal(0)
            return ("sym", bs, g, STuple([SVal(idx + off, INT), ev]), idx, n)
        if it.kind == "items":
            d = it.args[0]
            k = z3.Const(E.fresh_name("qk"), E.U.sort(d.ty.k))
            dt = E.U.dt(d.ty)
            return ("sym", [k], z3.Select(dt.dom(d.t), k), STuple([SVal(k, d.ty.k), SVal(z3.Select(dt.val(d.t), k), d.ty.v)]), None, None)
        if it.kind == "zip":
            seqs = [seq_of(E, a, st) for a in it.args[0]]
            i = z3.Int(E.fresh_name("qi"))
            g = z3.And([0 <= i] + [i < Q.Length(s.t) for s in seqs])
            return ("sym", [i], g, STuple([SVal(Q.At(s.t, i), s.ty.elem) for s in seqs]), i, None)
        if it.kind in ("chain", "seq", "chain*"):
            it = seq_of(E, it, st)
        else:
            raise OutsideSubset(f"quantifier over {it.kind}")
    if isinstance(it, SVal):
        ty = it.ty
        if isinstance(ty, TOpt):
            it = SVal(E.U.dt(ty).get(it.t), ty.inner)
            ty = it.ty
        if isinstance(ty, TList):
            i = z3.Int(E.fresh_name("qi"))
            src = it.t
            if not Q.pattern_ok(src):
                # name the source so that quantifier triggers over its elements are well-formed patterns
                nm = E.fresh(ty, "src")
                st.assume(nm.t == src)
                src = nm.t
            return ("sym", [i], z3.And(0 <= i, i < Q.Length(src)), SVal(Q.At(src, i), ty.elem), i, Q.Length(src))
        if isinstance(ty, TSet):
            x = z3.Const(E.fresh_name("qx"), E.U.sort(ty.elem))
            return ("sym", [x], z3.Select(it.t, x), SVal(x, ty.elem), None, None)
        if isinstance(ty, TDict):
            x = z3.Const(E.fresh_name("qk"), E.U.sort(ty.k))
            return ("sym", [x], z3.Select(E.U.dt(ty).dom(it.t), x), SVal(x, ty.k), None, None)
        if ty is OPAQUE:
            s = seq_of(E, it, st)
            i = z3.Int(E.fresh_name("qi"))
            return ("sym", [i], z3.And(0 <= i, i < Q.Length(s.t)), SVal(Q.At(s.t, i), OPAQUE), i, Q.Length(s.t))
        if isinstance(ty, TTuple):
            dt = E.U.dt(ty)
            return ("unroll", [SVal(dt.accessor(0, k)(it.t), e) for k, e in enumerate(ty.elems)])
    raise OutsideSubset(f"cannot quantify over {it!r}")


def _pat_or(a, b):
    return b if a is None else a


def _src_pattern(ev, i, k, lo_shift):
    """trigger for the surjectivity fact: the k-th source element term"""
    v = ev
    if isinstance(v, STuple):
        for x in v.items:
            p = _src_pattern(x, i, k, lo_shift)
            if p is not None:
                return p
        return None
    if isinstance(v, SVal) and v.t is not None and not z3.is_int(v.t) and not z3.is_bool(v.t):
        zero = z3.is_int_value(lo_shift) and lo_shift.as_long() == 0
        t = z3.substitute(v.t, (i, k if zero else k + lo_shift))
        if z3.is_app(t) and t.num_args() > 0 and Q.pattern_ok(t):
            return t
    return None


def _narrow(E, e, elt, ifs):
    """[x.f for ... if ... and x.f is not None]: the element is the unwrapped Optional"""
    if not (isinstance(e, SVal) and isinstance(e.ty, TOpt)):
        return e
    want = ast.dump(elt)
    for c in ifs:
        for n in ast.walk(c):
            if isinstance(n, ast.Compare) and len(n.ops) == 1 and isinstance(n.ops[0], ast.IsNot) \
                    and isinstance(n.comparators[0], ast.Constant) and n.comparators[0].value is None and ast.dump(n.left) == want:
                return SVal(E.U.dt(e.ty).get(e.t), e.ty.inner)
    return e


def quantifier(E, is_all, gen, st):
    st.nofork += 1
    try:
        b = _quant(E, is_all, gen.generators, 0, gen.elt, st)
    finally:
        st.nofork -= 1
    yield st, SVal(b, BOOL)


def _quant(E, is_all, gens, idx, elt, st):
    if idx == len(gens):
        return E.truthy(E.ev1p(elt, st), st)
    g = gens[idx]
    it = E.ev1p(g.iter, st)
    b = binder(E, it, st)
    if b[0] == "unroll":
        outs = []
        for v in b[1]:
            frame = {}
            bind_target(g.target, v, frame)
            st.bound.append(frame)
            try:
                conds = [E.truthy(E.ev1p(c, st), st) for c in g.ifs]
                body = _quant(E, is_all, gens, idx + 1, elt, st)
            finally:
                st.bound.pop()
            outs.append(z3.Implies(z3.And(conds), body) if (is_all and conds) else (z3.And(conds + [body]) if conds else body))
        if not outs:
            return z3.BoolVal(is_all)
        return z3.And(outs) if is_all else z3.Or(outs)
    _, bs, guard, ev, _i, _n = b
    frame = {}
    bind_target(g.target, ev, frame)
    st.bound.append(frame)
    st.qvars.extend(bs)
    try:
        conds = [E.truthy(E.ev1p(c, st), st) for c in g.ifs]
        body = _quant(E, is_all, gens, idx + 1, elt, st)
    finally:
        st.bound.pop()
        del st.qvars[len(st.qvars) - len(bs):]
    if isinstance(it, AnyOf):
        from .solve import trig
        # whole-sort quantifier: explicit trigger (the prover mentions trig(c) for every skolem constant c)
        if is_all:
            return z3.ForAll(bs, z3.Implies(z3.And([guard] + conds), body), patterns=[trig(bs[0])])
        return z3.Exists(bs, z3.And([guard] + conds + [body]))
    if is_all:
        return z3.ForAll(bs, z3.Implies(z3.And([guard] + conds), body))
    return z3.Exists(bs, z3.And([guard] + conds + [body]))


# -------------------------------------------------------------------------------------------------
def _comp_key(E, node, st):
    ids = []
    for n in ast.walk(node):
        if isinstance(n, ast.Name) and isinstance(n.ctx, ast.Load):
            try:
                v = E.lookup(n.id, st)
            except OutsideSubset:
                continue
            if isinstance(v, SVal) and v.t is not None:
                ids.append((n.id, v.t.get_id()))
            elif isinstance(v, STuple):
                ids.append((n.id, repr(v)))
    heap = tuple(sorted((k, a.get_id()) for k, a in st.heap.items()))
    return (ast.dump(node), tuple(sorted(set(ids))), heap)


def list_comp(E, node, st):
    key = _comp_key(E, node, st)
    if key in E.comp_cache:
        yield st, E.comp_cache[key]
        return
    st.nofork += 1
    try:
        res, facts = _list_comp(E, node.generators, node.elt, st)
    finally:
        st.nofork -= 1
    for f in facts:
        st.assume(f)
    E.comp_cache[key] = res
    E.comp_facts = getattr(E, "comp_facts", {})
    E.comp_facts[key] = facts
    yield st, res


def list_comp_from_gen(E, view, st):
    node = view.args[0]
    saved = st.bound
    st.bound = list(view.args[1]) if view.args[1] else st.bound
    try:
        outs = list(list_comp(E, node, st))
    finally:
        st.bound = saved
    for s, v in outs:
        s.bound = saved
        yield s, v


def _list_comp(E, gens, elt, st):
    """returns (SVal list, [facts])"""
    g = gens[0]
    it = E.ev1p(g.iter, st)
    b = binder(E, it, st)
    if len(gens) == 1 and b[0] == "unroll":
        items = []
        conds_all = []
        for v in b[1]:
            frame = {}
            bind_target(g.target, v, frame)
            st.bound.append(frame)
            try:
                conds = [E.truthy(E.ev1p(c, st), st) for c in g.ifs]
                e = E.ev1p(elt, st)
            finally:
                st.bound.pop()
            items.append((z3.And(conds) if conds else None, e))
        if not items:
            return Empty("list"), []
        mats = [E.materialize(e, st) if not isinstance(e, SVal) else e for _, e in items]
        ety = _join_tys([m.ty for m in mats])
        sort = E.U.sort(TList(ety))
        t = Q.Empty(sort)
        for (c, _), m in zip(items, mats):
            u = Q.Unit(E.coerce(m, ety, st).t)
            t = Q.Concat(t, u if c is None else z3.If(c, u, Q.Empty(sort)))
        return SVal(z3.simplify(t), TList(ety)), []
    if len(gens) == 1 and b[0] == "sym" and b[4] is not None and b[5] is not None:
        _, bs, guard, ev, idx, n = b
        i = bs[0]
        frame = {}
        bind_target(g.target, ev, frame)
        st.bound.append(frame)
        st.qvars.extend(bs)
        try:
            conds = [E.truthy(E.ev1p(c, st), st) for c in g.ifs]
            e = E.ev1p(elt, st)
        finally:
            st.bound.pop()
            del st.qvars[len(st.qvars) - len(bs):]
        e = E.materialize(e, st) if not isinstance(e, SVal) else e
        e = _narrow(E, e, elt, g.ifs)
        ety = e.ty
        rty = TList(ety)
        if not conds:
            # [e(x) for x in xs]: defined outright as (len xs, lambda j. e(xs[j])) in canonical form, so that two maps over
            # equal sources are equal by array extensionality (beta reduction, no quantifier instantiation needed)
            j = z3.Int(E.fresh_name("mj"))
            lo_shift = z3.simplify(i - idx)   # i = idx + lo
            zero = z3.is_int_value(lo_shift) and lo_shift.as_long() == 0
            ej = z3.substitute(e.t, (i, j if zero else j + lo_shift))
            nn = n if (z3.is_app(n) and n.decl().name().startswith("len!")) else z3.If(n < 0, 0, n)
            dt = Q.list_sort(E.U.sort(ety))
            R = SVal(dt.mkl(nn, z3.Lambda([j], z3.If(z3.And(0 <= j, j < nn), ej, Q.dflt(E.U.sort(ety))))), rty)
            E.assumptions.add("schematic rule MAP: [e(x) for x in xs] is the list (len xs, lambda j. e(xs[j]))")
            return R, []
        c = z3.And(conds)
        lo_shift = z3.simplify(i - idx)
        R = E.fresh(rty, "filtermap")
        fidx = z3.Function(E.fresh_name("fm_idx"), z3.IntSort(), z3.IntSort())
        finv = z3.Function(E.fresh_name("fm_inv"), z3.IntSort(), z3.IntSort())
        j, j2, k = z3.Int(E.fresh_name("fj")), z3.Int(E.fresh_name("fj2")), z3.Int(E.fresh_name("fk"))
        nn = n if (z3.is_app(n) and n.decl().name().startswith("len!")) else z3.If(n < 0, 0, n)
        lenR = Q.Length(R.t)
        _sh = (lambda t: t) if (z3.is_int_value(lo_shift) and lo_shift.as_long() == 0) else (lambda t: t + lo_shift)
        c_at = lambda t: z3.substitute(c, (i, _sh(t)))
        e_at = lambda t: z3.substitute(e.t, (i, _sh(t)))
        facts = [lenR <= nn,
                 # every element of R comes from a selected source position, in order
                 z3.ForAll([j], z3.Implies(z3.And(0 <= j, j < lenR),
                                           z3.And(0 <= fidx(j), fidx(j) < nn, c_at(fidx(j)), Q.At(R.t, j) == e_at(fidx(j)))),
                           patterns=[Q.At(R.t, j)]),
                 z3.ForAll([j, j2], z3.Implies(z3.And(0 <= j, j < j2, j2 < lenR), fidx(j) < fidx(j2)), patterns=[z3.MultiPattern(fidx(j), fidx(j2))]),
                 # every selected source position appears in R
                 z3.ForAll([k], z3.Implies(z3.And(0 <= k, k < nn, c_at(k)),
                                           z3.And(0 <= finv(k), finv(k) < lenR, fidx(finv(k)) == k, Q.At(R.t, finv(k)) == e_at(k))),
                           patterns=[_pat_or(_src_pattern(ev, i, k, lo_shift), finv(k))])]
        # the last family needs an instance per candidate k: give z3 the trigger through the guard of the source index
        facts.append(z3.ForAll([k], finv(k) == finv(k), patterns=[z3.substitute(e.t, (i, k + lo_shift))]) if False else z3.BoolVal(True))
        E.assumptions.add("schematic rule FILTERMAP: [e(x) for x in xs if c(x)] is characterised by a strictly increasing index "
                          "function onto the selected positions (sound and complete; justified by list induction)")
        E.fm_inv = getattr(E, "fm_inv", [])
        E.fm_inv.append((finv, k, c_at, nn))
        return R, facts
    # general case (several generators / unordered sources): membership characterisation only
    frames = []
    bs_all, guards = [], []

    def rec(idx):
        if idx == len(gens):
            e = E.ev1p(elt, st)
            return E.materialize(e, st) if not isinstance(e, SVal) else e
        gg = gens[idx]
        it2 = E.ev1p(gg.iter, st)
        b2 = binder(E, it2, st)
        if b2[0] == "unroll":
            raise OutsideSubset("literal iterable inside a multi-generator comprehension")
        _, bs, guard, ev, _i, _n = b2
        frame = {}
        bind_target(gg.target, ev, frame)
        st.bound.append(frame)
        frames.append(frame)
        bs_all.extend(bs)
        guards.append(guard)
        guards.extend(E.truthy(E.ev1p(c, st), st) for c in gg.ifs)
        return rec(idx + 1)
    try:
        e = rec(0)
    finally:
        for _ in frames:
            st.bound.pop()
    R = E.fresh(TList(e.ty), "flatmap")
    v = z3.Const(E.fresh_name("fv"), E.U.sort(e.ty))
    member_body = z3.Exists(bs_all, z3.And(guards + [e.t == v]))
    facts = [z3.ForAll([v], E.seq_member(R.t, v) == member_body)]
    # `x in R` is answered from the characterisation directly (no instantiation of the fact above is needed)
    E.flatmaps = getattr(E, "flatmaps", {})
    E.flatmaps[R.t.get_id()] = (v, member_body)
    E.assumptions.add("schematic rule FLATMAP: a multi-generator comprehension is characterised by its members only (order/multiplicity unconstrained)")
    return R, facts


def set_comp(E, node, st):
    st.nofork += 1
    try:
        frames, bs_all, guards = [], [], []

        def rec(idx):
            if idx == len(node.generators):
                e = E.ev1p(node.elt, st)
                return E.materialize(e, st) if not isinstance(e, SVal) else e
            gg = node.generators[idx]
            it2 = E.ev1p(gg.iter, st)
            b2 = binder(E, it2, st)
            if b2[0] == "unroll":
                raise OutsideSubset("literal iterable in a set comprehension")
            _, bs, guard, ev, _i, _n = b2
            frame = {}
            bind_target(gg.target, ev, frame)
            st.bound.append(frame)
            frames.append(frame)
            bs_all.extend(bs)
            guards.append(guard)
            guards.extend(E.truthy(E.ev1p(c, st), st) for c in gg.ifs)
            return rec(idx + 1)
        try:
            e = rec(0)
        finally:
            for _ in frames:
                st.bound.pop()
    finally:
        st.nofork -= 1
    v = z3.Const(E.fresh_name("sv"), E.U.sort(e.ty))
    yield st, SVal(z3.Lambda([v], z3.Exists(bs_all, z3.And(guards + [e.t == v]))), TSet(e.ty))


def set_comp_from_gen(E, view, st):
    node = view.args[0]
    fake = ast.SetComp(elt=node.elt, generators=node.generators)
    saved = st.bound
    st.bound = list(view.args[1]) if view.args[1] else st.bound
    try:
        outs = list(set_comp(E, fake, st))
    finally:
        st.bound = saved
    for s, v in outs:
        s.bound = saved
        yield s, v


def dict_comp(E, node, st):
    """{k(x): v(x) for x in xs}: keys = image of k; value of a key = v at the LAST index producing that key"""
    if len(node.generators) != 1:
        raise OutsideSubset("dict comprehension with several generators")
    g = node.generators[0]
    st.nofork += 1
    try:
        it = E.ev1p(g.iter, st)
        b = binder(E, it, st)
        if b[0] != "sym" or b[4] is None:
            raise OutsideSubset("dict comprehension over a literal/unordered iterable")
        _, bs, guard, ev, idx, n = b
        i = bs[0]
        frame = {}
        bind_target(g.target, ev, frame)
        st.bound.append(frame)
        try:
            conds = [E.truthy(E.ev1p(c, st), st) for c in g.ifs]
            k = E.ev1p(node.key, st)
            v = E.ev1p(node.value, st)
        finally:
            st.bound.pop()
    finally:
        st.nofork -= 1
    k = E.materialize(k, st) if not isinstance(k, SVal) else k
    v = E.materialize(v, st) if not isinstance(v, SVal) else v
    ty = TDict(k.ty, v.ty)
    dt = E.U.dt(ty)
    D = E.fresh(ty, "dictcomp")
    c = z3.And([guard] + conds)
    kk = z3.Const(E.fresh_name("dk"), E.U.sort(k.ty))
    j = z3.Int(E.fresh_name("dj"))
    cj = z3.substitute(c, (i, j))
    kj = z3.substitute(k.t, (i, j))
    st.assume(z3.ForAll([kk], z3.Select(dt.dom(D.t), kk) == z3.Exists([i], z3.And(c, k.t == kk))))
    st.assume(z3.ForAll([i], z3.Implies(z3.And(c, z3.Not(z3.Exists([j], z3.And(j > i, cj, kj == k.t)))),
                                        z3.Select(dt.val(D.t), k.t) == v.t)))
    E.assumptions.add("schematic rule DICTCOMP: keys are the image; the last producer of a key gives its value")
    yield st, D
