"""Per-function verification driver: build the entry state from the contract, execute the real body, emit obligations,
discharge them."""
from __future__ import annotations

import ast
import os
import inspect
import time
import traceback

import z3

from . import locate, solve
from . import seqs as Q
from .api import Registry, parse_expr
from .calls import eval_spec, spec_state
from .engine import Engine, Obligation, _container, _m
from .stmts import exec_block, local_names
from .ty import *      # noqa
from .values import *  # noqa


class FunctionReport:
    def __init__(self, qualname):
        self.qualname = qualname
        self.file = None
        self.ast_hash = None
        self.lines = 0
        self.obligations = []     # dicts
        self.error = None         # outside-subset / crash text
        self.error_kind = None
        self.assumptions = []
        self.dropped = []
        self.inlined = {}
        self.paths = 0
        self.secs = 0.0
        self.feas_checks = 0


def param_types(E, fn, fdef, c, owner):
    """ordered name -> Ty|None(for PyObj params)"""
    out = {}
    args = fdef.args
    names = [a for a in args.posonlyargs + args.args + args.kwonlyargs]
    for a in names:
        n = a.arg
        decl = (c.params or {}).get(n)
        if decl is not None:
            out[n] = decl
            continue
        if n == "self":
            out[n] = c.self_type or (f"{owner.__module__}.{owner.__qualname__}" if owner else None)
            continue
        if n == "cls":
            out[n] = "@class"
            continue
        if a.annotation is not None:
            out[n] = ast.unparse(a.annotation)
        else:
            out[n] = "Opaque"
    return out


def verify_function(reg: Registry, qualname: str, tier="quick", ghosts=None) -> FunctionReport:
    rep = FunctionReport(qualname)
    t0 = time.time()
    E = Engine(reg, tier)
    try:
        _verify(E, reg, qualname, rep, ghosts or getattr(reg, "ghosts", {}))
    except OutsideSubset as e:
        rep.error = f"outside-subset: {e}"
        rep.error_kind = "undecided"
        # the function uses something the generator does not model.  If it CHANGED since the baseline, can be executed natively, and
        # observably behaves differently from its baseline version, that difference is reported (with the input) against the
        # function's contract as a whole; if it is indistinguishable the analysis simply stays undecided.
        try:
            c = reg.contracts.get(qualname)
            if c is not None and _native_ok(c) and not c.bounded:
                from .search import differential
                d = differential(E, reg, qualname, c, seed=int(os.environ.get("VERIF_SEED", "0") or 0))
                if d is not None and d["difference"] is not None:
                    rep.obligations.append({
                        "id": f"{qualname}/differential[the contract was proved for the baseline version; the changed body cannot be analysed and behaves differently]",
                        "func": qualname, "kind": "differential", "label": None, "status": "refuted", "backend": "native differential run",
                        "secs": 0.0, "reason": f"{rep.error}; " + d["difference"]["summary"], "model": None, "path_notes": [], "goal_size": 0,
                        "replay": {"reproduced": True, "detail": d["difference"]["summary"], "inputs": d["difference"]["inputs"]}, "clause": None})
                    rep.error, rep.error_kind = None, None
                elif d is not None and d["runs"] >= 40:
                    rep.error += f" (indistinguishable from the baseline version on {d['runs']} generated inputs)"
        except Exception:      # noqa
            pass
    except RecursionError as e:
        rep.error = f"outside-subset: recursion depth ({e})"
        rep.error_kind = "undecided"
    except Exception as e:
        rep.error = "crash: " + "".join(traceback.format_exception(e))[-3000:]
        rep.error_kind = "crash"
    rep.assumptions = sorted(E.assumptions)
    rep.dropped = sorted(E.dropped)
    rep.inlined = {k: v for k, v in E.functions.items() if k != qualname}
    rep.paths = E.paths
    rep.feas_checks = E.feas_checks
    rep.secs = time.time() - t0
    return rep


def _verify_bounded(E, reg, qualname, rep):
    """contract marked bounded=True: native evaluation only (a labelled bounded stand-in, never counted as proved)"""
    import os
    from .search import bounded_check
    c = reg.contracts[qualname]
    obj, owner, mod = locate.resolve(qualname)
    fn, kind, dropped = locate.unwrap(obj)
    fdef, path = locate.find_def(fn)
    rep.file, rep.ast_hash, rep.lines = path, locate.ast_hash(fdef), fdef.end_lineno - fdef.lineno + 1
    tries = 6000 if E.tier == "thorough" else 1500
    stats, found = bounded_check(E, reg, qualname, c, tries=tries, seed=int(os.environ.get("VERIF_SEED", "0") or 0))
    for oid, st_ in stats.items():
        w = found.get(oid)
        rep.obligations.append({
            "id": "bounded:" + oid, "func": qualname, "kind": "bounded", "label": None,
            "status": "refuted" if w else ("discharged" if st_["evaluations"] > 0 else "undecided"),
            "backend": "native evaluation of the contract clause on generated inputs (BOUNDED)", "secs": 0.0,
            "reason": "" if not w else "the real function violates the clause on a generated input",
            "model": None, "path_notes": [], "goal_size": 0,
            "replay": {"reproduced": True, "detail": w["observed"], "inputs": w["inputs"]} if w else None,
            "clause": next(e for i, (lab, e) in enumerate(c.ensures) if oid.startswith(f"{qualname}/post#{i}")),
            "bound": f"{tries} generated inputs (lists <= 3 elements, strings/paths/ints from small pools), seed {os.environ.get('VERIF_SEED', '0')}",
            "evaluations": st_["evaluations"], "nontrivial": st_["true_nontrivial"]})


def _verify(E, reg, qualname, rep, ghosts):
    c = reg.contracts[qualname]
    if c.bounded:
        E.cur = qualname
        _verify_bounded(E, reg, qualname, rep)
        return
    obj, owner, mod = locate.resolve(qualname)
    fn, kind, dropped = locate.unwrap(obj)
    fdef, path = locate.find_def(fn)
    rep.file, rep.ast_hash, rep.lines = path, locate.ast_hash(fdef), fdef.end_lineno - fdef.lineno + 1
    rep.source = ast.unparse(fdef)
    E.cur = qualname
    E.dropped.update(dropped)
    for d in fdef.decorator_list:
        E.dropped.add("decorator @" + ast.unparse(d) + " (interpreted/ignored)")
    if fdef.returns is not None or any(a.annotation for a in fdef.args.args):
        E.dropped.add("type annotations (used only as sort hints)")
    st = State()
    for g, t in ghosts.items():
        ty = E.U.parse(t)
        st.ghost[g] = E.fresh(ty, "ghost0_" + g)
    ptys = param_types(E, fn, fdef, c, owner)
    env = {}
    for n, t in ptys.items():
        if t == "@class":
            env[n] = PyObj(owner)
            continue
        if t is None:
            raise OutsideSubset(f"no type for parameter {n}")
        ty = E.U.parse(t)
        v = E.fresh(ty, "p_" + n)
        if isinstance(ty, TRef):
            st.assume(E.born(v.t) <= 0)
            # dynamic class is a subclass of the declared one
            rs = E.rec_sub
            st.assume(rs(E.cls_of(v.t), z3.IntVal(E.cls_id(ty.cls))))
        if isinstance(ty, TList) and isinstance(ty.elem, TRef):
            i = z3.Int(E.fresh_name("i"))
            st.assume(z3.ForAll([i], E.born(Q.At(v.t, i)) <= 0, patterns=[Q.At(v.t, i)]))
        if isinstance(ty, TOpt) and isinstance(ty.inner, TList) and isinstance(ty.inner.elem, TRef):
            i = z3.Int(E.fresh_name("i"))
            inner = E.U.dt(ty).get(v.t)
            st.assume(z3.ForAll([i], E.born(Q.At(inner, i)) <= 0, patterns=[Q.At(inner, i)]))
        env[n] = SVal(v.t, v.ty, LV("var", n) if _container(ty) else None)
    # defaults are not needed: every parameter is symbolic
    env["__globals__"] = PyObj(fn.__globals__)
    env["__locals__"] = PyObj(local_names(fdef))
    env["__fname__"] = PyObj(qualname)
    env["__fdef__"] = PyObj(fdef)
    if owner is not None:
        env["__owner__"] = PyObj(owner)
    st.env = env
    entry_frame = {n: v for n, v in env.items() if not n.startswith("__")}
    # preconditions
    for r in c.requires + c.assume_entry:
        st.assume(eval_spec(E, r, st, entry_frame))
    for r in c.assume_entry:
        E.assumptions.add(f"entry assumption of {qualname}: {r}")
    if E.satisfiable(st.pc) == "unsat":
        o = Obligation(f"{qualname}/vacuity[requires-satisfiable]", qualname, "vacuity", [], z3.BoolVal(False))
        o.status, o.reason = "refuted", "the precondition (with the assumed axioms) is contradictory"
        E.obls.append(o)
    if any("memoisation" in d for d in dropped):
        from .calls import memo_obligation
        memo_obligation(E, fdef, qualname, st)
    st.old = None
    entry = st.copy()
    st.old = entry
    E.functions[qualname] = {"file": path, "ast_hash": rep.ast_hash, "mode": "verified", "lines": rep.lines}
    E.sink = []
    outs = exec_block(E, fdef.body, st) + E.sink
    E.sink = []
    rty = E.U.parse(c.returns) if c.returns else None
    normal_exits = 0
    for s in outs:
        if s.status is None or s.status[0] == "return":
            normal_exits += 1
            res = s.status[1] if s.status else SVal(None, NONE)
            if rty is not None and rty is not NONE:
                try:
                    if isinstance(res, IterView):
                        from .builtins_ import seq_of
                        res = seq_of(E, res, s)
                    res = E.coerce(res, rty, s)
                except OutsideSubset as e:
                    raise OutsideSubset(f"return value {res!r} does not fit declared type {rty}: {e}")
            frame = dict(entry_frame)
            frame["result"] = res
            for m_ in (c.modifies or []):
                # a container parameter mutated in place: contract clauses see its final value, old(p) the entry value
                if m_ in entry_frame and isinstance(s.env.get(m_), SVal):
                    frame[m_] = s.env[m_]
                    frame.setdefault("__entry__", {})[m_] = entry_frame[m_]
            for gname, gexpr in c.ghost_exit.items():
                gv = E.ev1p(parse_expr(gexpr), spec_state(E, s, frame, old=entry))
                s.ghost[gname] = E.coerce(gv, s.ghost[gname].ty, s)
            for lname, binds in c.lemmas:
                lemma_instance(E, reg, lname, binds, s, frame)
            for i, (lab, e) in enumerate(c.ensures):
                g = eval_spec(E, e, s, frame, old=entry)
                _ob(E, s, f"post#{i}", g, lab, clause=e)
            _frame_obligations(E, c, s, entry, entry_frame, "normal")
        elif s.status[0] == "raise":
            exc = s.status[1]
            alts = []
            frame = dict(entry_frame)
            frame["exc"] = exc
            for ex in c.exsures:
                name, cond = ex[0], ex[1]
                cls = E.exc_class_by_name(name)
                a = E.exc_sub(E.exc_cls(exc.t), z3.IntVal(E.exc_id(cls)))
                if cond is not None:
                    a = z3.And(a, eval_spec(E, cond, s, frame, old=entry))
                alts.append(a)
            if c.raises_any:
                alts.append(z3.BoolVal(True))
            g = z3.Or(alts) if alts else z3.BoolVal(False)
            _ob(E, s, "raises", g, "only-declared-exceptions-escape")
            for ex in c.exsures:
                if len(ex) > 3:
                    cls = E.exc_class_by_name(ex[0])
                    a = E.exc_sub(E.exc_cls(exc.t), z3.IntVal(E.exc_id(cls)))
                    for j, p in enumerate(ex[3]):
                        _ob(E, s, f"expost:{ex[0]}#{j}", z3.Implies(a, eval_spec(E, p, s, frame, old=entry)), None)
            if getattr(c, "frame_on_raise", True):
                _frame_obligations(E, c, s, entry, entry_frame, "raise")
        else:
            raise OutsideSubset(f"{s.status} escaped the function body")
    # covers: each must be reachable at some normal exit
    for i, cv in enumerate(c.covers):
        found = False
        unknown = False
        for s in outs:
            if s.status is None or s.status[0] == "return":
                res = s.status[1] if s.status else SVal(None, NONE)
                frame = dict(entry_frame)
                try:
                    frame["result"] = E.coerce(res, rty, s) if (rty is not None and rty is not NONE) else res
                    g = eval_spec(E, cv, s, frame, old=entry)
                except OutsideSubset:
                    continue
                r = E.satisfiable(s.pc + [g])
                if r == "sat":
                    found = True
                    break
                if r == "unknown":
                    unknown = True
        o = Obligation(f"{qualname}/cover#{i}[{cv[:60]}]", qualname, "cover", [], z3.BoolVal(found))
        o.status = "discharged" if found else ("undecided" if unknown else "refuted")
        o.backend = "z3-5.1(api) sat-check"
        o.reason = "" if found else ("cover: model search returned unknown" if unknown else "cover not reachable: the contract may be vacuous")
        if o.status == "undecided":
            # an undecided cover is not evidence of vacuity: it is reported as an assumption, not as an obligation
            E.assumptions.add(f"cover not decided (model search unknown): {qualname} :: {cv[:80]}")
            continue
        E.obls.append(o)
    # vacuity: at least one normal exit must not be provably infeasible (a contradictory assumption proves everything)
    if c.noreturn:
        ok = any(s.status is not None and s.status[0] == "raise" and E.satisfiable(s.pc) != "unsat" for s in outs)
        if not ok:
            o = Obligation(f"{qualname}/vacuity[some-exceptional-exit-is-consistent]", qualname, "vacuity", [], z3.BoolVal(False))
            o.status, o.reason = "refuted", "no consistent exceptional exit of a noreturn function"
            E.obls.append(o)
    elif normal_exits > 0:
        feasible_exit = False
        for s in outs:
            if s.status is None or s.status[0] == "return":
                if E.satisfiable(s.pc) != "unsat":
                    feasible_exit = True
                    break
        if not feasible_exit:
            o = Obligation(f"{qualname}/vacuity[some-normal-exit-is-consistent]", qualname, "vacuity", [], z3.BoolVal(False))
            o.status, o.reason = "refuted", "every normal exit has a contradictory path condition: assumptions are inconsistent"
            E.obls.append(o)
    if normal_exits == 0 and not c.raises_any and not c.exsures:
        o = Obligation(f"{qualname}/vacuity[normal-exit-exists]", qualname, "vacuity", [], z3.BoolVal(False))
        o.status, o.reason = "refuted", "no path reaches a normal exit"
        E.obls.append(o)
    E.entry_state, E.entry_frame = entry, entry_frame
    _discharge_all(E, rep)


def _ob(E, s, kind, goal, label, clause=None):
    o = Obligation(f"{E.cur}/{kind}" + (f"[{label}]" if label else ""), E.cur, kind, s.pc, goal, s.trace_notes, label)
    o.tainted = list(s.tainted)
    o.clause = clause
    E.obls.append(o)


def _frame_obligations(E, c, s, entry, entry_frame, tag):
    """nothing outside `modifies` changed: heap fields of pre-existing objects and ghost variables"""
    if c.modifies is None:
        return
    allowed_fields = {}      # (field) -> [object terms]
    ghosts_ok = set()
    whole = False
    for m in c.modifies:
        if m.startswith("ghost:"):
            ghosts_ok.add(m[6:])
            continue
        if m == "heap:*":
            whole = True
            continue
        node = parse_expr(m)
        if isinstance(node, ast.Attribute):
            sp = spec_state(E, entry, entry_frame)
            obj = E.ev1p(node.value, sp)
            if isinstance(obj, SVal) and isinstance(obj.ty, TOpt):
                obj = SVal(E.U.dt(obj.ty).get(obj.t), obj.ty.inner)
            fields = [node.attr] if node.attr != "_ALL_" else list(E.U.all_fields(obj.ty.cls))
            for f in fields:
                allowed_fields.setdefault(f, []).append(obj.t)
    if whole:
        return
    for key, arr in s.heap.items():
        field, tk = key
        base = entry.heap.get(key)
        if base is None:
            base = z3.Const(f"H0_{field}_{_m(tk)}", arr.sort())
        if arr is base or arr.eq(base):
            continue
        r = z3.Const(E.fresh_name("r_frame"), E.U.Ref)
        cond = [E.born(r) <= 0] + [r != o for o in allowed_fields.get(field, [])]
        g = z3.Implies(z3.And(cond), arr[r] == base[r])
        _ob(E, s, f"frame:{field}", g, tag)
    for gname, v in s.ghost.items():
        if gname in ghosts_ok:
            continue
        b = entry.ghost[gname]
        if v.t is b.t or v.t.eq(b.t):
            continue
        _ob(E, s, f"frame:ghost:{gname}", v.t == b.t, tag)
    # list/dict parameters are values: an in-place mutated parameter must be declared
    for n, v0 in entry_frame.items():
        if isinstance(v0, SVal) and _container(v0.ty):
            v1 = s.env.get(n)
            declared = n in c.modifies
            if isinstance(v1, SVal) and v1.t is not None and not v1.t.eq(v0.t) and not declared and n in getattr(s, "mutated_params", set()):
                _ob(E, s, f"frame:param:{n}", v1.t == v0.t, tag)


def _discharge_all(E, rep):
    axioms = E.axioms_now(wf=False)
    both = E.tier == "thorough"
    rec_defs = getattr(E, "rec_defs", [])
    timeout = solve.QUICK_MS * (6 if both else 1)
    import os
    budget = float(os.environ.get("PYVC_FUNCTION_BUDGET_S", "900" if both else "150"))
    t_start = time.time()
    for o in E.obls:
        if o.status is None and time.time() - t_start > budget:
            o.status, o.backend, o.reason = "undecided", "none", f"per-function solver budget of {budget:.0f}s exhausted"
            continue
        if o.status is None:
            pc = list(o.pc) + solve.unfold_instances(rec_defs, list(o.pc) + [o.goal])
            r = solve.discharge(axioms, pc, o.goal, timeout_ms=timeout, both=both, wf_axioms=E.wf_axioms)
            o.status, o.backend, o.secs, o.reason = r.status, r.backend, r.secs, r.reason
            if r.status == "refuted":
                if getattr(o, "tainted", None):
                    o.status = "undecided"
                    o.reason = f"path contains unmodelled call(s) {o.tainted}: heap havoced, refutation not trusted"
                elif r.model is not None:
                    o.model_text = _model_text(r.model)
                    o.modulo_wf = bool(getattr(r, "modulo_wf", False))
                    if o.func == E.cur and hasattr(E, "entry_state") and o.kind.startswith(("post#", "raises")) \
                            and E.cur in E.reg.contracts and _native_ok(E.reg.contracts[E.cur]):
                        from .replay import try_replay
                        o.replay = try_replay(E, E.cur, r.model, E.entry_state, E.entry_frame, getattr(o, "clause", None),
                                              "raises" if o.kind == "raises" else "post")
    # native counterexample search for what the solver left open (refuter only: it never proves anything)
    open_obls = [o for o in E.obls if (o.status == "undecided" or (o.status == "refuted" and not (getattr(o, "replay", None) or {}).get("reproduced")))
                 and o.func == E.cur and not E.cur.startswith("lemma:")
                 and (o.kind.startswith("post#") or o.kind == "raises") and not getattr(o, "tainted", None)]
    if open_obls and E.cur in E.reg.contracts and _native_ok(E.reg.contracts[E.cur]):
        from .search import search
        import os
        seen = {}
        for o in open_obls:
            seen.setdefault(o.id, (o.id, "raises" if o.kind == "raises" else "post", getattr(o, "clause", None)))
        try:
            found = search(E, E.reg, E.cur, E.reg.contracts[E.cur], list(seen.values()),
                           seed=int(os.environ.get("VERIF_SEED", "0") or 0), tries=600 if E.tier == "thorough" else 250)
        except Exception as e:
            found = {}
            E.assumptions.add(f"native counterexample search failed: {type(e).__name__}: {e}")
        for o in open_obls:
            w = found.get(o.id)
            if w is not None:
                o.reason = ("solver: unknown; " if o.status == "undecided" else "solver: refuted; ") + \
                    "a failing input was found by running the real function (native counterexample search)"
                o.status = "refuted"
                o.backend = (o.backend or "") + "+native-search"
                o.replay = {"reproduced": True, "detail": w["observed"], "inputs": w["inputs"]}
    # cross-check of the model against CPython: every post clause of the function is also evaluated natively on generated
    # inputs; a clause that is false on the real function although its obligations were discharged means the engine's model
    # (value semantics of containers, assumed contracts) hides a real violation
    done_obls = [o for o in E.obls if o.status == "discharged" and o.func == E.cur and not E.cur.startswith("lemma:")
                 and o.kind.startswith("post#") and getattr(o, "clause", None)]
    if done_obls and E.cur in E.reg.contracts and _native_ok(E.reg.contracts[E.cur]):
        from .search import search
        import os
        seen = {}
        for o in done_obls:
            seen.setdefault(o.id, (o.id, "post", o.clause))
        try:
            found = search(E, E.reg, E.cur, E.reg.contracts[E.cur], list(seen.values()),
                           seed=int(os.environ.get("VERIF_SEED", "0") or 0) + 1, tries=300 if E.tier == "thorough" else 60)
        except Exception:
            found = {}
        E.crosschecked = len(seen)
        for o in done_obls:
            w = found.get(o.id)
            if w is not None:
                o.status = "refuted"
                o.backend = (o.backend or "") + "+cpython-crosscheck"
                o.reason = ("discharged by the solver, but the REAL function violates the clause on a concrete input: the model "
                            "(value semantics / assumed contracts) does not capture this behaviour")
                o.replay = {"reproduced": True, "detail": w["observed"], "inputs": w["inputs"]}
    # Candidate counter-models (found only after weakening the quantified axioms, or by E-matching saturation) of a function
    # that CAN be executed natively: when the real function satisfied the clause on every one of >= 50 generated inputs the
    # candidate is most likely an artefact of the model (e.g. aliasing the value semantics cannot follow) - the obligation is
    # left undecided and is not escalated.  Functions with effects cannot be executed; their candidates stand, without an input.
    evals = getattr(E, "search_evals", {})
    for o in E.obls:
        if o.status == "refuted" and getattr(o, "modulo_wf", False) and not (getattr(o, "replay", None) or {}).get("reproduced"):
            n = evals.get(o.id, 0)
            if n >= 50 and len(getattr(E, "search_variety", {}).get(o.id, ())) >= 3:
                o.status = "undecided"
                o.reason = (f"not reproduced: the solver's candidate counter-model could not be replayed and the real function satisfied the clause "
                            f"on all {n} generated inputs; left undecided (solver: {o.reason})")
            else:
                o.reason = (o.reason or "") + " [no replay on the real function: effects / opaque inputs]"
        elif o.status == "undecided" and evals.get(o.id, 0) >= 50 and len(getattr(E, "search_variety", {}).get(o.id, ())) >= 3 \
                and str(o.reason).startswith("unknown"):
            o.reason = f"not refuted by {evals[o.id]} native executions of the real function; solver: {o.reason}"
    # Differential check against the BASELINE version of this function (contracts/baseline/_sources.json): when the function
    # has changed, can be executed natively, and some obligation is no longer discharged without a reproduced failing input,
    # the old and the new body are run side by side on generated inputs.  Indistinguishable => the failure to prove is
    # attributed to the proof (missing invariant, solver limit), the obligations are left undecided and never escalated.
    # A difference is attached as the failing input.
    pending = [o for o in E.obls if o.func == E.cur and o.status in ("refuted", "undecided")
               and not (getattr(o, "replay", None) or {}).get("reproduced") and not getattr(o, "tainted", None)]
    if pending and E.cur in E.reg.contracts and _native_ok(E.reg.contracts[E.cur]) and not E.cur.startswith("lemma:"):
        from .search import differential
        try:
            d = differential(E, E.reg, E.cur, E.reg.contracts[E.cur], seed=int(os.environ.get("VERIF_SEED", "0") or 0))
        except Exception as e:      # noqa
            d = None
            E.assumptions.add(f"differential check against the baseline failed to run: {type(e).__name__}: {e}")
        if d is not None and d["runs"] >= 40 and d["difference"] is None:
            for o in pending:
                o.status = "undecided"
                o.reason = (f"not refuted: the changed function is indistinguishable from its baseline version on {d['runs']} generated inputs "
                            f"(same results, same effects on its arguments); solver: {o.reason}")
        elif d is not None and d["difference"] is not None:
            # the proof no longer goes through AND the real function observably behaves differently from the version the proof was
            # made for: reported as a failure of these obligations, with the distinguishing input
            for o in pending:
                was = o.status
                o.status = "refuted"
                o.backend = (o.backend or "") + "+differential"
                o.reason = ((o.reason or "") if was == "refuted" else f"no longer provable ({o.reason})") + \
                    "; the changed function BEHAVES differently from its baseline version: " + d["difference"]["summary"]
                o.replay = {"reproduced": True, "detail": d["difference"]["summary"], "inputs": d["difference"]["inputs"]}
    for o in E.obls:
        rep.obligations.append({
            "id": o.id, "func": o.func, "kind": o.kind, "label": o.label, "status": o.status, "backend": o.backend,
            "secs": round(o.secs, 4), "reason": o.reason, "model": o.model_text, "path_notes": o.notes[-12:],
            "goal_size": len(str(o.goal)) if o.goal is not None else 0,
            "replay": getattr(o, "replay", None), "clause": getattr(o, "clause", None),
        })


def _native_ok(c):
    """the real function is only ever executed natively (counterexample search / cross-check) when its contract says it has
    no effect outside its arguments: nothing that touches the file system, the whole heap, or ends the process"""
    if c.noreturn or getattr(c, "no_native", False):
        return False
    for m in (c.modifies or []):
        if m.startswith("ghost:") or m == "heap:*":
            return False
    return True


def _model_text(m):
    lines = []
    for d in m.decls():
        name = d.name()
        if "!" in name and not name.startswith(("p_", "ghost0_")):
            continue
        try:
            lines.append(f"{name} = {m[d]}")
        except Exception:
            pass
    lines.sort()
    return "\n".join(lines)[:6000]


# =================================================================================================
# lemmas proved by induction over a natural-number parameter (z3 does no induction: base and step are two obligations)
def verify_lemma(reg, lem, tier="quick"):
    name = lem["name"]
    rep = FunctionReport("lemma:" + name)
    t0 = time.time()
    E = Engine(reg, tier)
    E.cur = "lemma:" + name
    try:
        st = State()
        for g, t in getattr(reg, "ghosts", {}).items():
            st.ghost[g] = E.fresh(E.U.parse(t), "ghost0_" + g)
        frame = {}
        for n, t in lem["params"].items():
            ty = E.U.parse(t)
            frame[n] = E.fresh(ty, "l_" + n)
        kname = lem["induction"]
        k = frame[kname]
        for r in lem.get("requires", []):
            st.assume(eval_spec(E, r, st, frame))
        base_frame = dict(frame)
        base_frame[kname] = SVal(z3.IntVal(0), INT)
        g0 = eval_spec(E, lem["statement"], st, base_frame)
        o = Obligation(f"lemma:{name}/base", "lemma:" + name, "lemma-base", st.pc, g0)
        o.tainted, o.clause = [], lem["statement"]
        E.obls.append(o)
        s2 = st.copy()
        s2.assume(k.t >= 0)
        s2.assume(eval_spec(E, lem["statement"], s2, frame))
        step_frame = dict(frame)
        step_frame[kname] = SVal(k.t + 1, INT)
        g1 = eval_spec(E, lem["statement"], s2, step_frame)
        o = Obligation(f"lemma:{name}/step", "lemma:" + name, "lemma-step", s2.pc, g1)
        o.tainted, o.clause = [], lem["statement"]
        E.obls.append(o)
        _discharge_all(E, rep)
    except OutsideSubset as e:
        rep.error, rep.error_kind = f"outside-subset: {e}", "undecided"
    except Exception as e:
        rep.error, rep.error_kind = "crash: " + "".join(traceback.format_exception(e))[-3000:], "crash"
    rep.assumptions = sorted(E.assumptions)
    rep.dropped = sorted(E.dropped)
    rep.secs = time.time() - t0
    return rep


def lemma_instance(E, reg, name, bindings, st, frame):
    """assume a proved lemma at the given argument expressions (evaluated in `frame`)"""
    lem = next(l for l in reg.lemmas if l["name"] == name)
    fr = {}
    for n in lem["params"]:
        fr[n] = E.ev1p(parse_expr(bindings[n]), spec_state(E, st, frame))
        fr[n] = E.coerce(fr[n], E.U.parse(lem["params"][n]), st)
    st.assume(z3.Implies(fr[lem["induction"]].t >= 0, eval_spec(E, lem["statement"], st, fr)))
    E.assumptions.add(f"lemma {name} (proved by induction in this run: obligations lemma:{name}/base, /step)")
