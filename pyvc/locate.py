"""Locate the real definitions in /repo's current working tree (through the interpreter's own import and MRO)."""
from __future__ import annotations

import ast
import functools
import hashlib
import importlib
import inspect
import sys

_parsed = {}
_file_hashes = {}


def parse_file(path):
    if path not in _parsed:
        src = open(path, "rb").read()
        _file_hashes[path] = hashlib.sha256(src).hexdigest()
        _parsed[path] = ast.parse(src.decode("utf-8"), filename=path)
    return _parsed[path]


def file_hashes():
    return dict(_file_hashes)


def resolve(qualname):
    """'pkg.mod.Class.meth' -> (python object as stored in the class/module dict, owner class or None, module)"""
    parts = qualname.split(".")
    mod = None
    for i in range(len(parts), 0, -1):
        name = ".".join(parts[:i])
        try:
            mod = importlib.import_module(name)
            rest = parts[i:]
            break
        except ImportError:
            continue
        except Exception:
            raise
    if mod is None:
        raise LookupError(f"cannot import any prefix of {qualname}")
    obj = mod
    owner = None
    for j, p in enumerate(rest):
        if inspect.isclass(obj):
            owner = obj
            found = None
            for k in obj.__mro__:
                if p in k.__dict__:
                    found = k.__dict__[p]
                    owner = k
                    break
            if found is None:
                raise LookupError(f"{qualname}: no attribute {p}")
            obj = found
        else:
            obj = getattr(obj, p)
    return obj, owner, mod


def unwrap(obj):
    """strip classmethod/staticmethod/property/cached_property/functools.cache wrappers -> (function, kind, dropped decorators)"""
    kind = "function"
    dropped = []
    for _ in range(8):
        if isinstance(obj, classmethod):
            obj = obj.__func__
            kind = "classmethod"
            continue
        if isinstance(obj, staticmethod):
            obj = obj.__func__
            kind = "staticmethod"
            continue
        if isinstance(obj, property):
            obj = obj.fget
            kind = "property"
            continue
        if isinstance(obj, functools.cached_property):
            obj = obj.func
            kind = "property"
            dropped.append("cached_property (memoisation treated as identity)")
            continue
        if hasattr(obj, "__wrapped__") and hasattr(obj, "cache_info"):
            obj = obj.__wrapped__
            dropped.append("functools.cache (memoisation treated as identity)")
            continue
        if inspect.ismethod(obj):
            obj = obj.__func__
            continue
        break
    return obj, kind, dropped


def find_def(fn):
    """ast.FunctionDef of a real function object, read from the file in the current working tree"""
    code = fn.__code__
    path = code.co_filename
    tree = parse_file(path)
    first = code.co_firstlineno
    best = None
    for node in ast.walk(tree):
        if isinstance(node, (ast.FunctionDef, ast.AsyncFunctionDef)) and node.name == fn.__name__:
            lines = [node.lineno] + [d.lineno for d in node.decorator_list]
            if first in lines:
                return node, path
            if best is None:
                best = node
    if best is None:
        raise LookupError(f"no def for {fn.__qualname__} in {path}")
    return best, path


def qualname_of(obj):
    mod = getattr(obj, "__module__", None)
    qn = getattr(obj, "__qualname__", None) or getattr(obj, "__name__", None)
    if inspect.ismodule(obj):
        return obj.__name__
    if mod is None and inspect.isbuiltin(obj):
        owner = getattr(obj, "__self__", None)
        if isinstance(owner, type):
            return f"{owner.__module__}.{owner.__qualname__}.{obj.__name__}"
        if inspect.ismodule(owner):
            return f"{owner.__name__}.{obj.__name__}"
    if inspect.ismethod(obj) and isinstance(obj.__self__, type):
        return f"{obj.__self__.__module__}.{obj.__self__.__qualname__}.{obj.__name__}"
    if mod and qn:
        return f"{mod}.{qn}"
    return None


def ast_hash(node):
    return hashlib.sha256(ast.dump(node, include_attributes=False).encode()).hexdigest()[:16]


def fresh_import_state():
    """drop cached ASTs (the engine is one process per run, so this is only for long-lived drivers)"""
    _parsed.clear()
    _file_hashes.clear()
