"""Call evaluation: spec forms, builtins, methods of symbolic values, contracts, inlining, unknown calls."""
from __future__ import annotations

import ast
import builtins as _bi
import inspect

import z3

from . import locate
from .api import parse_expr
from .engine import LookupErrorOrType, MUTATORS, _container, _join_tys, _m
from .ty import *      # noqa
from .values import *  # noqa

DROPPED_ROOTS = {"logger"}
DROPPED_FUNCS = {"log_list", "log_section", "print", "configure_logger", "log_report"}


class SuperProxy:
    def __init__(self, self_val, after_cls, lv):
        self.self_val, self.after_cls, self.lv = self_val, after_cls, lv


def _root_name(n):
    while isinstance(n, ast.Attribute):
        n = n.value
    return n.id if isinstance(n, ast.Name) else None


def check_unbound_names(E, node, st):
    comp_bound = set()
    for n in ast.walk(node):
        if isinstance(n, ast.comprehension):
            for t in ast.walk(n.target):
                if isinstance(t, ast.Name):
                    comp_bound.add(t.id)
        elif isinstance(n, ast.Lambda):
            comp_bound.update(a.arg for a in n.args.args)
    for n in ast.walk(node):
        if isinstance(n, ast.Name) and n.id in comp_bound:
            continue
        if isinstance(n, ast.Name) and isinstance(n.ctx, ast.Load):
            locs = st.env.get("__locals__")
            if locs is not None and n.id in locs.obj and n.id not in st.env and not any(n.id in f for f in st.bound):
                st.note(f"raises UnboundLocalError: {n.id}")
                E.raise_exc(st, E.new_exc(UnboundLocalError, st))
                return False
    return True


def ev_call(E, node, st):
    f = node.func
    # ---- dropped calls (logging): total, effect-free (assumption); argument names must still be bound
    if (isinstance(f, ast.Attribute) and _root_name(f) in DROPPED_ROOTS) or (isinstance(f, ast.Name) and f.id in DROPPED_FUNCS):
        E.dropped.add("logging calls (logger.*, log_list, log_section, print) - assumed total and effect-free")
        if not (st.spec or st.nofork):
            if not check_unbound_names(E, node, st):
                return
        yield st, SVal(None, NONE)
        return
    # ---- quantifiers and spec forms need unevaluated arguments
    if isinstance(f, ast.Name):
        if f.id in ("any", "all") and len(node.args) == 1 and isinstance(node.args[0], (ast.GeneratorExp, ast.ListComp)):
            from .comp import quantifier
            yield from quantifier(E, f.id == "all", node.args[0], st)
            return
        if f.id == "old" and st.spec:
            if st.old is None:
                raise OutsideSubset("old() outside a postcondition")
            o = st.old.copy()
            o.spec = 1
            o.bound = list(st.bound)
            if o.bound and isinstance(o.bound[0], dict) and "__entry__" in o.bound[0]:
                # parameters mutated in place: old(p) is the value at entry
                fr0 = dict(o.bound[0])
                fr0.update(o.bound[0]["__entry__"])
                o.bound[0] = fr0
            o.pc = st.pc
            v = E.ev1p(node.args[0], o)
            yield st, v
            return
        if f.id == "raised_by" and st.spec:
            # raised_by("Exc", callee(args)): the (uninterpreted) condition under which a PURE assumed callee raises Exc
            name = node.args[0].value
            call = node.args[1]
            cal = E.ev1p(call.func, st)
            args = [E.ev1p(a, st) for a in call.args]
            kw = {k.arg: E.ev1p(k.value, st) for k in call.keywords}
            qn = locate.qualname_of(cal.obj) if isinstance(cal, PyObj) else (f"opaque.{cal.name}" if isinstance(cal, BoundM) else None)
            c = E.reg.contracts.get(qn)
            if c is None or not (c.pure or c.det_raise):
                raise OutsideSubset(f"raised_by on {qn}: not a pure assumed contract")
            if isinstance(cal, BoundM):
                args = [cal.recv] + args
            fn0 = cal.obj if isinstance(cal, PyObj) and inspect.isfunction(locate.unwrap(cal.obj)[0]) else None
            frame = _typed_args(E, c, bind_params(E, locate.unwrap(fn0)[0] if fn0 else None, c, args, kw, st, qn), st)
            yield st, SVal(_uf_of_args(E, f"raises_{name}_{_m(qn)}", frame, z3.BoolSort(), st), BOOL)
            return
        if f.id == "super" and not node.args:
            me = st.env.get("self") or st.env.get("cls")
            owner = st.env.get("__owner__")
            yield st, PyObj(SuperProxy(me, owner.obj if owner else None, LV("var", "self")))
            return
    # ---- callee, then arguments left to right
    for s, fv in E.ev(f, st):
        yield from _args_then(E, node, fv, s)


def _args_then(E, node, fv, st):
    def rec(i, s, acc):
        if i == len(node.args):
            yield from reck(0, s, acc, {})
            return
        a = node.args[i]
        if isinstance(a, ast.Starred):
            for s2, v in E.ev(a.value, s):
                if isinstance(v, STuple):
                    yield from rec(i + 1, s2, acc + v.items)
                elif isinstance(v, PyObj) and isinstance(v.obj, (list, tuple)):
                    yield from rec(i + 1, s2, acc + [PyObj(x) for x in v.obj])
                else:
                    yield from rec(i + 1, s2, acc + [("*", v)])
            return
        for s2, v in E.ev(a, s):
            yield from rec(i + 1, s2, acc + [v])

    def reck(j, s, acc, kw):
        if j == len(node.keywords):
            yield from dispatch(E, fv, acc, kw, s, node)
            return
        k = node.keywords[j]
        if k.arg is None:
            raise OutsideSubset("**kwargs")
        for s2, v in E.ev(k.value, s):
            kw2 = dict(kw)
            kw2[k.arg] = v
            yield from reck(j + 1, s2, acc, kw2)
    yield from rec(0, st, [])


# =================================================================================================
def dispatch(E, fv, args, kw, st, node):
    from . import builtins_ as B
    if isinstance(fv, SpecFn):
        yield st, apply_spec(E, fv.name, args, st)
        return
    if isinstance(fv, Closure):
        yield from call_closure(E, fv, args, kw, st)
        return
    if isinstance(fv, BoundM):
        yield from B.call_method(E, fv, args, kw, st, node)
        return
    if isinstance(fv, PyObj):
        o = fv.obj
        if isinstance(o, str) and o in B.SPEC_FORMS:
            yield from B.SPEC_FORMS[o](E, args, kw, st, node)
            return
        if isinstance(o, SuperProxy):
            raise OutsideSubset("call of super proxy")
        if isinstance(o, type) and issubclass(o, BaseException):
            e = E.new_exc(o, st)
            yield st, e
            return
        qn = locate.qualname_of(o)
        if isinstance(o, type) or inspect.isbuiltin(o) or (qn or "").startswith("builtins."):
            name = getattr(o, "__name__", None)
            if name in B.BUILTINS and getattr(_bi, name, None) is o:
                yield from B.BUILTINS[name](E, args, kw, st, node)
                return
        if qn in B.LIBFUNCS:
            yield from B.LIBFUNCS[qn](E, args, kw, st, node)
            return
        if isinstance(o, type):
            # alias class (dict subclass modelled as a dict value)
            al = E.U.alias_of_class(qn) if hasattr(E.U, "alias_of_class") else None
            if al is not None:
                ty = E.U.parse(al)
                if not args:
                    v = E.empty_of(ty)
                    yield st, SVal(v.t, ty)
                else:
                    v = E.coerce(args[0], ty, st)
                    yield st, SVal(v.t, ty)
                return
            rec = E.U.records.get(qn)
            if rec is not None and (qn not in E.reg.contracts):
                yield from construct(E, rec, args, kw, st, node)
                return
        if qn and qn in E.reg.contracts:
            c = E.reg.contracts[qn]
            fn, kind, dropped = locate.unwrap(o)
            if inspect.ismethod(o) and isinstance(o.__self__, type):
                args = [PyObj(o.__self__)] + list(args)
            if (c.inline or (_pure_ctx(st) and not c.functional)) and not c.trusted and inspect.isfunction(fn):
                yield from call_repo(E, fn, qn, args, kw, st, dropped, node)
            else:
                yield from apply_contract(E, c, fn if (inspect.isfunction(fn) or isinstance(fn, type)) else None, args, kw, st, node)
            return
        if inspect.ismethod(o) and isinstance(o.__self__, type):
            # classmethod accessed on a class
            fn = o.__func__
            owner = None
            for k in o.__self__.__mro__:
                if fn.__name__ in k.__dict__:
                    owner = k
                    break
            qn2 = f"{owner.__module__}.{owner.__qualname__}.{fn.__name__}"
            if qn2 in E.reg.contracts and not E.reg.contracts[qn2].inline:
                yield from apply_contract(E, E.reg.contracts[qn2], fn, [PyObj(o.__self__)] + args, kw, st, node)
                return
            if _is_repo(fn):
                yield from call_repo(E, fn, qn2, [PyObj(o.__self__)] + args, kw, st, (), node, owner=owner)
                return
        fn, kind, dropped = locate.unwrap(o)
        if inspect.isfunction(fn) and _is_repo(fn):
            qn = f"{fn.__module__}.{fn.__qualname__}"
            if qn in E.reg.contracts and not E.reg.contracts[qn].inline and not (_pure_ctx(st) and not E.reg.contracts[qn].functional):
                yield from apply_contract(E, E.reg.contracts[qn], fn, args, kw, st, node)
            else:
                yield from call_repo(E, fn, qn, args, kw, st, dropped, node)
            return
        yield from unknown_call(E, qn or repr(o), args, kw, st, node)
        return
    if isinstance(fv, SVal) and fv.ty is OPAQUE:
        c = E.reg.contracts.get("opaque.__call__")
        if c is not None:
            if kw and c.params is None:
                pass
            yield from apply_contract(E, c, None, [fv] + list(args), kw, st, node)
        else:
            yield from unknown_call(E, "call of an opaque value", args, kw, st, node)
        return
    raise OutsideSubset(f"call of {fv!r}")


def _pure_ctx(st):
    """inside a quantifier / comprehension body or a specification: a callee's contract (fresh result + assumption)
    cannot be used under a binder, so repo callees are inlined there (they are still verified against their own contract)"""
    return bool(st.nofork or st.spec)


def _is_repo(fn):
    mod = getattr(fn, "__module__", "") or ""
    return mod.split(".")[0] in ("codemodder", "core_codemods")


def call_closure(E, clo, args, kw, st):
    node = clo.node
    names = [a.arg for a in node.args.args]
    frame = dict(zip(names, args))
    frame.update(kw)
    s = st
    saved = s.env
    env = dict(clo.env)
    env.update(saved if False else {})
    s.bound = s.bound + [frame]
    try:
        outs = list(E.ev(node.body, s))
    finally:
        s.bound = s.bound[:-1]
    for s2, v in outs:
        s2.bound = [b for b in s2.bound if b is not frame]
        yield s2, v


# =================================================================================================
# spec functions
def apply_spec(E, name, args, st):
    sp = E.reg.specs[name]
    ptys = [E.U.parse(t) for t in sp.params.values()]
    rty = E.U.parse(sp.returns)
    vals = [E.coerce(a, t, st) for a, t in zip(args, ptys)]
    if len(vals) != len(ptys):
        raise OutsideSubset(f"spec {name}: arity")
    if sp.body is None or sp.recursive:
        reads = getattr(sp, "reads", None) or []
        rk = _read_keys(E, st, reads)
        key = (name, tuple(sorted((k, a.get_id()) for k, a in st.heap.items() if k in rk and not _is_base(a))))
        if key not in E.specfns:
            sorts = [E.U.sort(t) for t in ptys]
            f = z3.Function(E.fresh_name("spec_" + name) if reads else "spec_" + name, *sorts, E.U.sort(rty))
            E.specfns[key] = f
            E.wf_function(f, sorts)
            if sp.recursive and sp.body is not None:
                # recursive spec function: uninterpreted + definitional equation, unfolded by the generator at the ground
                # applications that occur in an obligation (explicit instantiation; z3 does no induction)
                formals = [z3.Const(f"{p}!sp{next(E.n)}", srt) for p, srt in zip(sp.params, sorts)]
                s2 = st.copy()
                s2.pc = []
                s2.spec = 1
                s2.nofork = 0
                s2.qvars = []
                s2.env = {}
                s2.bound = [{p: SVal(fm, t) for p, fm, t in zip(sp.params, formals, ptys)}]
                body = E.coerce(E.ev1p(parse_expr(sp.body), s2), rty, s2)
                E.rec_defs = getattr(E, "rec_defs", [])
                E.rec_defs.append((f, formals, body.t, list(s2.pc)))
            else:
                for ax in sp.axioms:
                    add_axiom(E, f"spec {name}", ax[0], ax[1])
        f = E.specfns[key]
        return SVal(f(*[v.t for v in vals]), rty)
    s2 = st.copy()
    s2.spec += 1
    s2.bound = s2.bound + [dict(zip(sp.params, vals))]
    v = E.ev1p(parse_expr(sp.body), s2)
    return E.coerce(v, rty, st) if not (isinstance(v, SVal) and v.ty == rty) else v


def add_axiom(E, label, expr, vars):
    """assumed first-order fact: forall vars. expr (recorded in the evidence as an assumption)"""
    s = State()
    s.spec = 1
    consts = []
    frame = {}
    for n, t in vars.items():
        ty = E.U.parse(t)
        c = z3.Const(f"{n}!ax{next(E.n)}", E.U.sort(ty))
        consts.append(c)
        frame[n] = SVal(c, ty)
    s.bound = [frame]
    v = E.ev1p(parse_expr(expr), s)
    body = E.truthy(v, s)
    ax = z3.ForAll(consts, body) if consts else body
    E.axioms.append(ax)
    E.assumptions.add(f"axiom[{label}]: forall {', '.join(vars)}. {expr}")


# =================================================================================================
# constructors of record classes
def _handwritten_init(cls):
    init = cls.__dict__.get("__init__")
    if init is None:
        for k in cls.__mro__[1:]:
            if "__init__" in k.__dict__:
                init = k.__dict__["__init__"]
                cls = k
                break
    if init is None or not inspect.isfunction(init):
        return None
    if not (init.__module__ or "").startswith(("codemodder", "core_codemods")):
        return None
    if init.__code__.co_filename.startswith("<"):
        return None          # dataclass-generated
    return init, cls


def construct(E, rec, args, kw, st, node):
    hw = _handwritten_init(rec.pyclass) if (rec.pyclass is not None and rec.kind == "ref") else None
    if hw is not None:
        init, owner = hw
        obj = E.new_obj(st, rec.qualname, {})
        qn = f"{owner.__module__}.{owner.__qualname__}.__init__"
        c = E.reg.contracts.get(qn)
        gen = apply_contract(E, c, init, [obj] + list(args), kw, st, node) if (c is not None and not c.inline) \
            else call_repo(E, init, qn, [obj] + list(args), kw, st, (), node, owner=owner)
        for s2, _ in gen:
            yield s2, obj
        return
    fields = E.U.all_fields(rec.qualname)
    names = list(fields)
    vals = {}
    pos_names = names
    if rec.pyclass is not None:
        try:
            sig = inspect.signature(rec.pyclass)
            pos_names = [p for p in sig.parameters if p in fields or True]
        except (TypeError, ValueError):
            pass
    for n, a in zip(pos_names, args):
        vals[n] = a
    vals.update(kw)
    for n in list(vals):
        if n not in fields:
            raise OutsideSubset(f"constructor {rec.short}: argument {n} is not a declared field")
    defaults = getattr(rec, "defaults", {})
    full = {}
    for n, ty in fields.items():
        if n in vals:
            full[n] = E.coerce(vals[n], ty, st)
        elif n in defaults:
            s2 = st.copy()
            s2.spec = 1
            full[n] = E.coerce(E.ev1p(parse_expr(defaults[n]), s2), ty, st)
        elif isinstance(ty, TOpt):
            full[n] = SVal(E.U.dt(ty).none, ty)
        elif _container(ty):
            full[n] = E.empty_of(ty)
        else:
            full[n] = SVal(z3.Const(f"default_{rec.short}_{n}", E.U.sort(ty)), ty)
    if rec.kind == "val":
        ty = TVal(rec.qualname)
        dt = E.U.dt(ty)
        v = SVal(dt.mk(*[full[n].t for n in names]), ty)
    else:
        v = E.new_obj(st, rec.qualname, full)
    # validators (pydantic model_validator(mode="after")) run on the constructed value
    states = [st]
    for vname in getattr(rec, "validators", []):
        nxt = []
        raw = rec.pyclass.__dict__[vname]
        fn = getattr(raw, "wrapped", None) or getattr(raw, "__func__", None) or raw
        fn = locate.unwrap(fn)[0]
        for s in states:
            for s2, _ in call_repo(E, fn, f"{rec.qualname}.{vname}", [v], {}, s, (), node):
                nxt.append(s2)
        states = nxt
    for s in states:
        yield s, v


# =================================================================================================
# contracts at call sites
def bind_params(E, fn, c, args, kw, st, qualname):
    """-> ordered dict param -> value"""
    names = None
    defaults = {}
    if c is not None and c.params is None and c.trusted:
        # assumed external without a declared signature: every argument is accepted
        out = {f"arg{i}": a for i, a in enumerate(args)}
        out.update(kw)
        return out
    if fn is not None:
        try:
            sig = inspect.signature(fn)
            names = list(sig.parameters)
            for n, p in sig.parameters.items():
                if p.default is not inspect.Parameter.empty:
                    defaults[n] = PyObj(p.default)
                if p.kind in (p.VAR_POSITIONAL, p.VAR_KEYWORD):
                    names.remove(n)
        except (TypeError, ValueError):
            names = None
        if isinstance(fn, type) and not names and c is not None and c.params:
            names = None          # a class whose constructor is (*args, **kwargs): use the contract's parameter list
    if names is None:
        if c is not None and c.params is None:
            # assumed external without a declared signature: every argument is accepted
            out = {f"arg{i}": a for i, a in enumerate(args)}
            out.update(kw)
            return out
        names = list(c.params or {}) if c is not None else []
    if c is not None:
        for n, dv in (getattr(c, "param_defaults", None) or {}).items():
            defaults.setdefault(n, PyObj(dv) if not isinstance(dv, (str, int, bool)) else E.const(dv))
    out = {}
    if any(isinstance(a, tuple) and a and a[0] == "*" for a in args):
        raise OutsideSubset(f"splat of a symbolic sequence in call of {qualname}")
    if len(args) > len(names):
        raise OutsideSubset(f"too many positional arguments for {qualname}")
    for n, a in zip(names, args):
        out[n] = a
    for k, v in kw.items():
        if k not in names:
            raise OutsideSubset(f"unexpected keyword {k} for {qualname}")
        out[k] = v
    for n in names:
        if n not in out:
            if n in defaults:
                out[n] = defaults[n]
            else:
                raise OutsideSubset(f"missing argument {n} for {qualname}")
    return {n: out[n] for n in names}


def _typed_args(E, c, bound, st):
    if not c.params:
        return bound
    out = {}
    for n, v in bound.items():
        t = c.params.get(n)
        if t is not None and t != "*":
            ty = E.U.parse(t)
            if isinstance(v, PyObj) and not isinstance(v.obj, (int, str, bool, type(None), list, tuple)):
                out[n] = v
                continue
            if isinstance(v, IterView):
                from .builtins_ import seq_of
                from .comp import list_comp_from_gen
                if v.kind == "gen":
                    outs_ = list(list_comp_from_gen(E, v, st))
                    if len(outs_) != 1:
                        raise OutsideSubset("generator argument forked")
                    v = outs_[0][1]
                else:
                    v = seq_of(E, v, st)
            try:
                v2 = E.coerce(v, ty, st)
            except OutsideSubset as e:
                if c.trusted and isinstance(v, SVal) and v.ty is not OPAQUE and not st.spec:
                    # the argument's type violates the parameter type of an ASSUMED contract: the guarantees that were
                    # proved through that contract no longer apply -> failed call-site precondition
                    E.oblige(st, f"call-pre:{c.qualname}[argument `{n}` has type {v.ty}, the assumed contract requires {ty}]", z3.BoolVal(False))
                    v2 = E.fresh(ty, "illtyped_" + n)
                else:
                    raise
            out[n] = SVal(v2.t, v2.ty, v.origin if isinstance(v, SVal) else None)
        else:
            out[n] = v
    return out


def spec_state(E, st, frame, old=None):
    s = st.copy()
    s.pc = st.pc            # shared: facts introduced while evaluating a specification (pure-call axioms) stay on the path
    s.status = None
    s.spec = 1
    s.bound = [frame]
    s.old = old
    return s


def eval_spec(E, expr, st, frame, old=None):
    s = spec_state(E, st, frame, old)
    v = E.ev1p(parse_expr(expr) if isinstance(expr, str) else expr, s)
    return E.truthy(v, s)


def havoc_lv(E, st, expr, frame, hint):
    """havoc the location named by a modifies entry (evaluated over the call's parameter frame)"""
    if expr.startswith("ghost:"):
        g = expr[6:]
        if g in st.ghost:
            st.ghost[g] = E.fresh(st.ghost[g].ty, "ghost_" + g)
        return
    if expr == "heap:*":
        havoc_all(E, st, ghosts=False)      # ghost variables are listed separately in a modifies clause
        return
    node = parse_expr(expr)
    if isinstance(node, ast.Name):
        v = frame.get(node.id)
        if isinstance(v, SVal):
            nv = E.fresh(v.ty, hint + "_" + node.id)
            nv = SVal(nv.t, nv.ty, v.origin)
            frame.setdefault("__entry__", {})[node.id] = v
            frame[node.id] = nv
            if v.origin is not None:
                E.assign_lv(st, v.origin, nv)
        return
    if isinstance(node, ast.Attribute):
        s = spec_state(E, st, frame)
        obj = E.ev1p(node.value, s)
        if isinstance(obj, SVal) and isinstance(obj.ty, TOpt):
            obj = SVal(E.U.dt(obj.ty).get(obj.t), obj.ty.inner)
        if not (isinstance(obj, SVal) and isinstance(obj.ty, TRef)):
            raise OutsideSubset(f"modifies {expr}: not an object field")
        fields = [node.attr] if node.attr != "_ALL_" else list(E.U.all_fields(obj.ty.cls))
        for f in fields:
            ty = E.U.field_ty(obj.ty.cls, f)
            if ty is None:
                raise OutsideSubset(f"modifies {expr}: undeclared field")
            nv = E.fresh(ty, f"{hint}_{f}")
            E.write_field(st, obj, f, nv)
            arr = st.heap[(f, ty.key)]
        return
    raise OutsideSubset(f"modifies entry {expr}")


def _wf_heap_key(E, st, key):
    field, tk = key
    for rec in E.U.records.values():
        ty = E.U.field_ty(rec.qualname, field)
        if ty is not None and ty.key == tk:
            E.wf_array(st.heap[key], ty)
            return


def havoc_all(E, st, ghosts=True):
    for key in list(st.heap):
        field, tk = key
        st.heap[key] = z3.Const(E.fresh_name(f"Hhavoc_{field}"), st.heap[key].sort())
        _wf_heap_key(E, st, key)
    if ghosts:
        for g in list(st.ghost):
            st.ghost[g] = E.fresh(st.ghost[g].ty, "ghost_" + g)


def _read_keys(E, st, reads):
    """heap keys named by a `reads` list: 'field' (every class) or 'Class.field' (that class's field type only)"""
    keys = set()
    for r in reads:
        if "." in r:
            cls, fld = r.rsplit(".", 1)
            fty = E.U.field_ty(cls, fld)
            if fty is not None:
                E.heap_arr(st, fld, fty)
                keys.add((fld, fty.key))
        else:
            for rec in E.U.records.values():
                fty = E.U.field_ty(rec.qualname, r)
                if fty is not None:
                    E.heap_arr(st, r, fty)
                    keys.add((r, fty.key))
    return keys


def _is_base(arr):
    """the initial version of a heap field (lazily created, the same constant in every state)"""
    return z3.is_const(arr) and arr.decl().name().startswith("H0_")


def apply_contract_pure(E, c, fn, args, kw, st, node):
    """contract used under a binder / in a specification: the callee is an uninterpreted function of its arguments
    (per heap version) whose contract clauses are asserted universally:  forall args. requires => ensures"""
    qn = c.qualname
    bound = bind_params(E, fn, c, args, kw, st, qn)
    frame = _typed_args(E, c, bound, st)
    if c.modifies:
        raise OutsideSubset(f"call of {qn} (modifies state) in a pure context")
    rty = E.U.parse(c.returns) if c.returns else None
    if rty is None or rty is NONE:
        return SVal(None, NONE)
    if c.reads is not None:
        rk = _read_keys(E, st, c.reads)
        hkey = tuple(sorted((k, a.get_id()) for k, a in st.heap.items() if k in rk and not _is_base(a)))
    else:
        hkey = tuple(sorted((k, a.get_id()) for k, a in st.heap.items() if not _is_base(a))) \
            + tuple(sorted((g, v.t.get_id()) for g, v in st.ghost.items()))
    key = (qn, hkey if not c.pure else ())
    if c.pure:
        # the same uninterpreted function as in impure contexts (see _uf_of_args)
        res = SVal(_uf_of_args(E, "fn_" + _m(qn), frame, E.U.sort(rty), st), rty)
        E.pure_done = getattr(E, "pure_done", set())
        if c.ensures and qn not in E.pure_done:
            E.pure_done.add(qn)
            names0 = [n for n, v in frame.items() if isinstance(v, SVal) and v.t is not None]
            consts = [z3.Const(E.fresh_name("a_" + n), frame[n].t.sort()) for n in names0]
            fr = dict(frame)
            for n, cst in zip(names0, consts):
                fr[n] = SVal(cst, frame[n].ty)
            fr2 = dict(fr)
            app = _uf_of_args(E, "fn_" + _m(qn), fr, E.U.sort(rty), st)
            fr2["result"] = SVal(app, rty)
            pre = [eval_spec(E, r, st, fr) for r in c.requires]
            post = [eval_spec(E, e, st, fr2, old=st) for _, e in c.ensures]
            ax = z3.ForAll(consts, z3.Implies(z3.And(pre) if pre else z3.BoolVal(True), z3.And(post)), patterns=[app]) if consts else z3.And(post)
            E.axioms.append(ax)
        if c.trusted:
            E.assumptions.add(f"assumed contract (trusted): {qn}" + (f" - {c.note}" if c.note else ""))
        return res
    names = [n for n, v in frame.items() if isinstance(v, SVal) and v.t is not None]
    E.pure_cache = getattr(E, "pure_cache", {})
    E.pure_axioms = getattr(E, "pure_axioms", {})
    if key not in E.pure_cache:
        sorts = [frame[n].t.sort() for n in names]
        f = z3.Function(E.fresh_name("pure_" + _m(qn.split(".")[-1])), *sorts, E.U.sort(rty))
        E.wf_function(f, sorts)
        E.pure_cache[key] = f
        consts = [z3.Const(E.fresh_name("a_" + n), srt) for n, srt in zip(names, sorts)]
        fr = dict(frame)
        for n, cst in zip(names, consts):
            fr[n] = SVal(cst, frame[n].ty)
        fr2 = dict(fr)
        fr2["result"] = SVal(f(*consts), rty)
        pre = [eval_spec(E, r, st, fr) for r in c.requires]
        post = [eval_spec(E, e, st, fr2, old=st) for _, e in c.ensures]
        if post:
            ax = z3.ForAll(consts, z3.Implies(z3.And(pre) if pre else z3.BoolVal(True), z3.And(post)),
                           patterns=[f(*consts)]) if consts else z3.And(post)
            E.pure_axioms[key] = ax
        if c.trusted:
            E.assumptions.add(f"assumed contract (trusted): {qn}" + (f" - {c.note}" if c.note else ""))
    # the contract axiom belongs to every state that uses the function (states forked before its first use included)
    ax = E.pure_axioms.get(key)
    if ax is not None and not any(p.get_id() == ax.get_id() for p in st.pc):
        st.assume(ax)
    f = E.pure_cache[key]
    return SVal(f(*[frame[n].t for n in names]), rty)


def apply_contract(E, c, fn, args, kw, st, node, recv_lv=None):
    if st.nofork or st.spec:
        yield st, apply_contract_pure(E, c, fn, args, kw, st, node)
        return
    if c.functional:
        bound = bind_params(E, fn, c, args, kw, st, c.qualname)
        frame = _typed_args(E, c, bound, st)
        for i, r in enumerate(c.requires):
            g = eval_spec(E, r, st, frame)
            E.oblige(st, f"call-pre:{c.qualname}#{i}", g, lineno=getattr(node, "lineno", None))
            st.assume(g)
        # exceptional exits of a functional contract: a deterministic function of the arguments decides whether it raises
        exs = list(c.exsures) + ([("Exception", None, "sub")] if c.raises_any else [])
        for ex in exs:
            name, cond = ex[0], ex[1]
            mode = ex[2] if len(ex) > 2 else "may"
            s = st.copy()
            cb = eval_spec(E, cond, s, frame) if cond is not None else _uf_of_args(E, f"raises_{name}_{_m(c.qualname)}", frame, z3.BoolSort(), st)
            if not E.feasible(s, cb):
                continue
            s.assume(cb)
            s.note(f"{c.qualname} raises {name}")
            E.raise_exc(s, E.new_exc(E.exc_class_by_name(name), s, exact=(mode != "sub")))
            st.assume(z3.Not(cb))
        yield st, apply_contract_pure(E, c, fn, args, kw, st, node)
        return
    qn = c.qualname
    bound = bind_params(E, fn, c, args, kw, st, qn)
    frame = _typed_args(E, c, bound, st)
    lineno = getattr(node, "lineno", None)
    # preconditions
    for i, r in enumerate(c.requires):
        g = eval_spec(E, r, st, frame)
        E.oblige(st, f"call-pre:{qn}#{i}", g, lineno=lineno)
        st.assume(g)
    pre = st.copy()
    rty = E.U.parse(c.returns) if c.returns else None
    # exceptional exits
    exs = list(c.exsures)
    if c.raises_any:
        exs.append(("Exception", None, "sub"))
    for ex in exs:
        name, cond = ex[0], ex[1]
        mode = ex[2] if len(ex) > 2 else "may"
        cls = E.exc_class_by_name(name)
        s = st.copy()
        if cond is not None:
            cb = eval_spec(E, cond, s, frame)
        elif c.pure or c.det_raise:
            cb = _uf_of_args(E, f"raises_{name}_{_m(qn)}", frame, z3.BoolSort(), st)
        else:
            cb = z3.Const(E.fresh_name(f"raises_{name}_{_m(qn)}"), z3.BoolSort())
        if not E.feasible(s, cb):
            continue
        s.assume(cb)
        if st.nofork:
            raise OutsideSubset(f"call of {qn} (may raise) in pure context")
        for m in c.modifies:
            havoc_lv(E, s, m, dict(frame), "exc_" + _m(qn.split(".")[-1]))
        s.note(f"{qn} raises {name}")
        exc_v = E.new_exc(cls, s, exact=(mode != "sub"))
        if len(ex) > 3:
            fr3 = dict(frame)
            fr3["exc"] = exc_v
            for post in ex[3]:
                s.assume(eval_spec(E, post, s, fr3, old=pre))
        E.raise_exc(s, exc_v)
        if mode == "iff" or c.pure or c.det_raise:
            st.assume(z3.Not(cb))
    # normal exit
    frame = dict(frame)
    for m in c.modifies:
        havoc_lv(E, st, m, frame, _m(qn.split(".")[-1]))
    if rty is None or rty is NONE:
        res = SVal(None, NONE)
    elif c.pure:
        res = SVal(_uf_of_args(E, "fn_" + _m(qn), frame, E.U.sort(rty), st), rty)
    else:
        res = E.fresh(rty, "ret_" + qn.split(".")[-1])
        if isinstance(rty, TRef):
            st.clock = st.clock + 1
            st.assume(E.born(res.t) <= z3.simplify(st.clock))
    fr2 = dict(frame)
    fr2["result"] = res
    for lab, e in c.ensures:
        st.assume(eval_spec(E, e, st, fr2, old=pre))
    if c.trusted:
        E.assumptions.add(f"assumed contract (trusted): {qn}" + (f" - {c.note}" if c.note else ""))
    yield st, res


def modified_fields(reg):
    """names of the object fields that some function under contract may write (last component of every `modifies` path)"""
    out = {}
    for qn, c in reg.contracts.items():
        for m in c.modifies or []:
            if m.startswith(("ghost:", "heap:")) or m.endswith("._ALL_") or "." not in m:
                continue
            out.setdefault(m.rsplit(".", 1)[1], qn)
    return out


def memo_obligation(E, fdef, qualname, st, node=None):
    """A memoised function (cached_property / functools.cache) is executed as if it were recomputed on every call.  That is only
    faithful when nothing it reads can change afterwards: every field of `self` it reads must be outside every `modifies`
    clause.  Otherwise the cached value can be stale - an obligation that fails."""
    done = getattr(E, "memo_done", set())
    E.memo_done = done
    if qualname in done or E.suppress:
        return
    done.add(qualname)
    reads = {n.attr for n in ast.walk(fdef) if isinstance(n, ast.Attribute) and isinstance(n.value, ast.Name) and n.value.id == "self"
             and isinstance(n.ctx, ast.Load)}
    mod = modified_fields(E.reg)
    stale = sorted(r for r in reads if r in mod)
    goal = z3.BoolVal(not stale)
    E.oblige(st, f"memo:{qualname}[the memoised value cannot go stale: it reads no field that a function under contract modifies"
             + (f"; reads {', '.join(stale)} (modified by {mod[stale[0]]})" if stale else "") + "]", goal,
             lineno=getattr(node, "lineno", None))


def _uf_of_args(E, name, frame, res_sort, st):
    ts = []
    for n, v in frame.items():
        if isinstance(v, SVal) and v.t is not None:
            ts.append(v.t)
        elif isinstance(v, (STuple, Empty)):
            try:
                ts.append(E.materialize(v, st).t)
            except OutsideSubset:
                continue
        elif isinstance(v, PyObj) and isinstance(v.obj, (int, str, bool)):
            ts.append(E.const(v.obj).t)
    f = E.uf(name, [t.sort() for t in ts], res_sort)
    return f(*ts) if ts else z3.Const(name + "!c", res_sort)


# =================================================================================================
# inlining real repo functions
def call_repo(E, fn, qualname, args, kw, st, dropped=(), node=None, owner=None):
    from .stmts import exec_block, local_names
    if st.nofork and not st.spec:
        pass
    if E.depth >= 8:
        raise OutsideSubset(f"inline depth exceeded at {qualname}")
    try:
        fdef, path = locate.find_def(fn)
    except (LookupError, OSError, TypeError) as e:
        raise OutsideSubset(f"no source for {qualname}: {e}")
    for d in dropped:
        E.dropped.add(d)
    if any("memoisation" in d for d in dropped):
        memo_obligation(E, fdef, qualname, st, node)
    for d in fdef.decorator_list:
        E.dropped.add("decorator @" + ast.unparse(d) + " (interpreted/ignored)")
    bound = bind_params(E, fn, None, args, kw, st, qualname)
    E.functions.setdefault(qualname, {"file": path, "ast_hash": locate.ast_hash(fdef), "mode": "inlined", "lines": (fdef.end_lineno - fdef.lineno + 1)})
    saved_env = st.env
    env = dict(bound)
    env["__globals__"] = PyObj(fn.__globals__)
    env["__locals__"] = PyObj(local_names(fdef))
    if owner is None:
        qn_parts = fn.__qualname__.split(".")
        if len(qn_parts) > 1:
            owner = fn.__globals__.get(qn_parts[0])
            for p in qn_parts[1:-1]:
                owner = getattr(owner, p, None)
    if owner is not None:
        env["__owner__"] = PyObj(owner)
    env["__fname__"] = PyObj(qualname)
    if st.nofork or st.spec:
        yield from _call_repo_pure(E, fdef, qualname, env, st)
        return
    st.env = env
    E.depth += 1
    saved_sink = E.sink
    E.sink = []
    try:
        outs = exec_block(E, fdef.body, st)
    finally:
        E.depth -= 1
        inner_sink = E.sink
        E.sink = saved_sink
    self_name = next(iter(bound), None)
    recv = args[0] if args else None
    for s in outs + inner_sink:
        final_env = s.env
        s.env = dict(saved_env)
        # write back an in-place mutated value-typed receiver (dict-subclass self)
        if self_name in ("self",) and isinstance(recv, SVal) and recv.origin is not None and _container(recv.ty):
            nv = final_env.get(self_name)
            if isinstance(nv, SVal) and nv.t is not recv.t:
                E.assign_lv(s, recv.origin, nv)
        if s.status is None:
            yield s, SVal(None, NONE)
        elif s.status[0] == "return":
            v = s.status[1]
            s.status = None
            yield s, v
        elif s.status[0] == "raise":
            E.sink.append(s)
        else:
            raise OutsideSubset(f"break/continue escaped {qualname}")


def _call_repo_pure(E, fdef, qualname, env, st):
    """inline a repo function inside a pure context (quantifier body / specification): statement-level branches are
    explored and the returned values merged with if-then-else over the branch conditions; the callee must not change
    state; raising paths are ignored (partial operations are assumed defined in pure contexts)"""
    from .stmts import exec_block
    work = st.copy()
    work.pc = list(st.pc)
    work.env = env
    work.bound = []          # the callee's scope does not see the caller's bound variables
    work.qvars = []          # branch conditions/facts of the inlined body are collected and merged below
    work.status = None       # (the caller may be sitting at a return/raise exit while its postcondition is evaluated)
    saved_nofork = work.nofork
    work.nofork = 0
    base = len(work.pc)
    nmarks = len(work.bmarks)
    E.depth += 1
    saved_sink = E.sink
    E.sink = []
    E.suppress += 1
    try:
        outs = exec_block(E, fdef.body, work)
    finally:
        E.depth -= 1
        E.suppress -= 1
        dropped = E.sink
        E.sink = saved_sink
    if any(d.status and d.status[0] == "raise" for d in dropped + outs):
        E.assumptions.add("partial operations inside quantifier/comprehension bodies are assumed defined")
    rets = []
    for o in outs:
        if o.status is not None and o.status[0] == "raise":
            continue
        v = o.status[1] if o.status else SVal(None, NONE)
        marks = [i for i in o.bmarks[nmarks:] if i >= base]
        cond = z3.And([o.pc[i] for i in marks]) if marks else z3.BoolVal(True)
        facts = [o.pc[i] for i in range(base, len(o.pc)) if i not in marks]
        for key, arr in o.heap.items():
            if key in st.heap and st.heap[key] is not arr:
                raise OutsideSubset(f"{qualname} changes the heap in a pure context")
        rets.append((cond, v, facts))
        for k2, a2 in o.heap.items():
            st.heap.setdefault(k2, a2)
    if not rets:
        if not outs and not dropped:
            # every branch was pruned: the enclosing path condition is already contradictory (an earlier feasibility
            # check was inconclusive); mark the path infeasible instead of giving up on the function
            st.assume(z3.BoolVal(False))
            yield st, E.fresh(OPAQUE, "infeasible")
            return
        raise OutsideSubset(f"{qualname}: no normal return in a pure context")
    for cond, v, facts in rets:
        for f in facts:
            if st.qvars and _mentions(f, st.qvars):
                # a fact about the bound element (typically "this external did not raise"): it cannot be kept outside the
                # binder; dropping a hypothesis is sound for proving, and partial operations under binders are assumed defined
                E.assumptions.add("partial operations inside quantifier/comprehension bodies are assumed defined")
                continue
            st.assume(z3.Implies(cond, f) if not z3.is_true(cond) else f)
    res = rets[-1][1]
    for cond, v, _ in reversed(rets[:-1]):
        res = E.ite(cond, v, res, st)
    yield st, res


def _mentions(expr, consts):
    ids = {c.get_id() for c in consts}
    seen = set()
    todo = [expr]
    while todo:
        x = todo.pop()
        i = x.get_id()
        if i in seen:
            continue
        seen.add(i)
        if i in ids:
            return True
        if z3.is_quantifier(x):
            todo.append(x.body())
        elif z3.is_app(x):
            todo.extend(x.children())
    return False


def unknown_call(E, name, args, kw, st, node):
    if st.spec:
        raise OutsideSubset(f"unknown function {name} in specification")
    if st.nofork:
        raise OutsideSubset(f"unknown call {name} in pure context")
    st.tainted.append(name)
    havoc_all(E, st)
    st.note(f"unknown call {name}: heap and ghost state havoced")
    s2 = st.copy()
    s2.note(f"unknown call {name} raises")
    E.raise_exc(s2, E.new_exc(Exception, s2, exact=False))
    yield st, E.fresh(OPAQUE, "unk_" + _m(name.split(".")[-1]))
