#!/bin/sh
# Builds (once, under flock) the overlay venv: python 3.12 + z3/cvc5 wheels + a .pth onto /venv's site-packages
# (where the repository is installed in editable mode, i.e. /repo/src is imported live).
HERE="$(cd "$(dirname "$0")/.." && pwd)"
VENV="$HERE/.venv"
PY312=/root/.pyenv/versions/3.12.1/bin/python
build_venv() {
  (
    flock 9
    if [ ! -x "$VENV/bin/python" ] || ! "$VENV/bin/python" -c "import z3, jsonschema" 2>/dev/null; then
      rm -rf "$VENV"
      "$PY312" -m venv "$VENV" >/dev/null 2>&1 || exit 3
      PIP_NO_INDEX=1 "$VENV/bin/pip" install -q --no-index --find-links /opt/veriftools/wheels \
          z3-solver cvc5 jsonschema hypothesis >/dev/null 2>&1 || exit 3
      echo "import site; site.addsitedir('/venv/lib/python3.12/site-packages')" \
          > "$VENV/lib/python3.12/site-packages/_repo_overlay.pth"
    fi
  ) 9>"$HERE/.venv.lock"
}
build_venv || { echo "setup failed" >&2; exit 3; }
if [ "$1" = "setup" ]; then
  "$VENV/bin/python" -c "import z3, codemodder, libcst; print('setup ok: z3', z3.get_version_string())" || exit 3
  exit 0
fi
export PYTHONPATH="$HERE${PYTHONPATH:+:$PYTHONPATH}"
export PYTHONDONTWRITEBYTECODE=1
# private scratch directory: the checks (and codemodder itself, which leaves its semgrep rule files behind) write temporary files only here
RUNTMP="$(mktemp -d "${TMPDIR:-/tmp}/pyvc_run_XXXXXX")" || exit 3
TMPDIR="$RUNTMP"
export TMPDIR
"$VENV/bin/python" -m pyvc.cli "$@"
rc=$?
rm -rf "$RUNTMP"
exit $rc
