"""Write-site frame scan (F-obligations).

`modifies` clauses are only as good as the list of things that can write.  On every run all of src/codemodder and
src/core_codemods is walked for calls to a write primitive; each occurrence must be (i) inside a function that is under an
effect contract (its contract mentions the ghost file system), or (ii) on the committed allow-list with its reason.
A new write site anywhere is an unmet obligation, not an unnoticed hole.
"""
from __future__ import annotations

import ast
import os

WRITE_METHODS = {"write", "writelines", "write_bytes", "write_text", "unlink", "rmdir", "rename", "replace", "mkdir", "touch",
                 "symlink_to", "hardlink_to", "chmod", "truncate"}
WRITE_FUNCS = {("os", "remove"), ("os", "unlink"), ("os", "rename"), ("os", "replace"), ("os", "mkdir"), ("os", "makedirs"),
               ("os", "rmdir"), ("os", "fdopen"), ("os", "chmod"), ("os", "symlink"), ("os", "link"), ("tomlkit", "dump"),
               ("json", "dump"), ("yaml", "dump"), ("pickle", "dump"), ("subprocess", "run"), ("subprocess", "Popen"),
               ("subprocess", "call"), ("subprocess", "check_call"), ("subprocess", "check_output"), ("os", "system")}
WRITE_MODULES = {"shutil", "tempfile"}

# (relative file, enclosing function) -> reason.  Committed; a site not listed here and not under an effect contract fails.
ALLOW = {
    ("codemodder/codetf.py", "CodeTF.write_report"): "the CodeTF report itself (the property excludes the report); under contract for C20",
    ("codemodder/semgrep.py", "run"): "semgrep subprocess + its temporary SARIF output (NamedTemporaryFile outside the project)",
    ("codemodder/codemods/semgrep.py", "_create_temp_yaml_file"): "temporary semgrep rule file (tempfile.mkstemp, outside the project)",
    ("codemodder/codemods/xml_transformer.py", "XMLTransformerPipeline.apply"): "TemporaryFile for the SAX output; the project write is under the apply contract",
    ("codemodder/codemods/xml_transformer.py", "XMLTransformer.comment"): "XMLGenerator._write to the temporary output stream",
    ("codemodder/codemods/xml_transformer.py", "XMLTransformer.startCDATA"): "XMLGenerator._write to the temporary output stream",
    ("codemodder/codemods/xml_transformer.py", "XMLTransformer.endCDATA"): "XMLGenerator._write to the temporary output stream",
    ("codemodder/codemods/xml_transformer.py", "XMLTransformer.startDTD"): "XMLGenerator._write to the temporary output stream",
    ("codemodder/scripts/generate_docs.py", "*"): "developer script, not part of a codemodder run",
    ("codemodder/scripts/get_hashes.py", "*"): "developer script, not part of a codemodder run",
    ("codemodder/logging.py", "*"): "log output streams",
    ("codemodder/codemods/test/", "*"): "test-support helpers shipped with the package (used by the test-suite, never by a codemodder run)",
}


def _enclosing(tree):
    """node -> qualified name of the enclosing function (Class.func or func) or '<module>'"""
    out = {}

    def visit(node, stack):
        for ch in ast.iter_child_nodes(node):
            if isinstance(ch, (ast.FunctionDef, ast.AsyncFunctionDef)):
                visit(ch, stack + [ch.name])
            elif isinstance(ch, ast.ClassDef):
                visit(ch, stack + [ch.name])
            else:
                out[id(ch)] = ".".join(stack) if stack else "<module>"
                visit(ch, stack)
    visit(tree, [])
    return out


def _is_write_open(call):
    if isinstance(call.func, ast.Name) and call.func.id == "open" or (isinstance(call.func, ast.Attribute) and call.func.attr == "open"):
        mode = None
        if len(call.args) >= 2 and isinstance(call.args[1], ast.Constant):
            mode = call.args[1].value
        for k in call.keywords:
            if k.arg == "mode" and isinstance(k.value, ast.Constant):
                mode = k.value.value
        if isinstance(call.func, ast.Attribute) and call.args and isinstance(call.args[0], ast.Constant) and mode is None:
            mode = call.args[0].value      # path.open("w")
        return isinstance(mode, str) and any(c in mode for c in "wax+")
    return False


def scan(src_root, contracts):
    """-> list of site dicts with status"""
    effect_fns = set()
    for qn, c in contracts.items():
        if any(m == "ghost:fs" for m in (c.modifies or [])) and not qn.startswith(("dyn:", "opaque.")):
            effect_fns.add(qn)
    sites = []
    for pkg in ("codemodder", "core_codemods"):
        for dirpath, _, files in os.walk(os.path.join(src_root, pkg)):
            for fn in sorted(files):
                if not fn.endswith(".py"):
                    continue
                path = os.path.join(dirpath, fn)
                rel = os.path.relpath(path, src_root)
                try:
                    tree = ast.parse(open(path, encoding="utf-8").read())
                except SyntaxError:
                    continue
                enc = _enclosing(tree)
                mod = rel[:-3].replace("/", ".")
                for node in ast.walk(tree):
                    if not isinstance(node, ast.Call):
                        continue
                    kind = None
                    f = node.func
                    if _is_write_open(node):
                        kind = "open-for-writing"
                    elif isinstance(f, ast.Attribute) and f.attr in WRITE_METHODS and not (isinstance(f.value, ast.Name) and f.value.id in ("logger", "sys")):
                        kind = "." + f.attr
                        # str.replace / dict-like replace are not file operations: require a path-ish receiver for replace/rename
                        if f.attr in ("replace", "rename", "touch", "chmod", "truncate") and not _pathish(f.value):
                            kind = None
                        if f.attr == "write" and _is_std_stream(f.value):
                            kind = None
                    elif isinstance(f, ast.Attribute) and isinstance(f.value, ast.Name) and (f.value.id, f.attr) in WRITE_FUNCS:
                        kind = f"{f.value.id}.{f.attr}"
                    elif isinstance(f, ast.Attribute) and isinstance(f.value, ast.Name) and f.value.id in WRITE_MODULES:
                        kind = f"{f.value.id}.{f.attr}"
                    elif isinstance(f, ast.Name) and f.id in ("TemporaryFile", "NamedTemporaryFile", "mkstemp", "mkdtemp"):
                        kind = f.id
                    if kind is None:
                        continue
                    func = enc.get(id(node), "<module>")
                    qn = f"{mod}.{func}"
                    status, why = "refuted", "write primitive outside every effect contract and not on the allow-list"
                    if qn in effect_fns:
                        status, why = "discharged", f"inside {qn}, which is under an effect contract over the ghost file system"
                    else:
                        for (afile, afunc), reason in ALLOW.items():
                            if (rel == afile or (afile.endswith("/") and rel.startswith(afile))) and (afunc == "*" or afunc == func):
                                status, why = "discharged", "allow-list: " + reason
                                break
                    sites.append({"file": rel, "line": node.lineno, "function": func, "primitive": kind, "status": status, "why": why})
    return sites


def _pathish(v):
    s = ast.unparse(v).lower()
    return any(w in s for w in ("path", "file", "dir"))


def _is_std_stream(v):
    s = ast.unparse(v)
    return s in ("sys.stdout", "sys.stderr", "self._out", "out")


def obligations(src_root, contracts):
    out = []
    for s in scan(src_root, contracts):
        out.append({"id": f"F/write-site {s['file']}:{s['line']} [{s['primitive']} in {s['function']}]", "func": s["function"], "kind": "frame-site",
                    "label": None, "status": s["status"], "backend": "syntactic frame scan (ast)", "secs": 0.0, "reason": s["why"] if s["status"] != "discharged" else "",
                    "model": None, "path_notes": [s["why"]], "goal_size": 0, "replay": None, "clause": "every write primitive is under an effect contract or on the allow-list"})
    return out
