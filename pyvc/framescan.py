"""Write-site frame scan (F-obligations).

`modifies` clauses are only as good as the list of things that can write.  On every run all of src/codemodder and
src/core_codemods is walked for calls to a write primitive; each occurrence must be (i) inside a function that is under an
effect contract (its contract mentions the ghost file system), or (ii) on the committed allow-list with its reason.
A new write site anywhere is an unmet obligation, not an unnoticed hole.
"""
from __future__ import annotations

import ast
import os

WRITE_METHODS = {"write", "writelines", "write_bytes", "write_text", "unlink", "rmdir", "rename", "replace", "mkdir", "touch",
                 "symlink_to", "hardlink_to", "chmod", "truncate"}
WRITE_FUNCS = {("os", "remove"), ("os", "unlink"), ("os", "rename"), ("os", "replace"), ("os", "mkdir"), ("os", "makedirs"),
               ("os", "rmdir"), ("os", "fdopen"), ("os", "chmod"), ("os", "symlink"), ("os", "link"), ("tomlkit", "dump"),
               ("json", "dump"), ("yaml", "dump"), ("pickle", "dump"), ("subprocess", "run"), ("subprocess", "Popen"),
               ("subprocess", "call"), ("subprocess", "check_call"), ("subprocess", "check_output"), ("os", "system")}
WRITE_MODULES = {"shutil", "tempfile"}

# (relative file, enclosing function) -> reason.  Committed; a site not listed here and not under an effect contract fails.
ALLOW = {
    ("codemodder/codetf.py", "CodeTF.write_report"): "the CodeTF report itself (the property excludes the report); under contract for C20",
    ("codemodder/semgrep.py", "run"): "semgrep subprocess + its temporary SARIF output (NamedTemporaryFile outside the project)",
    ("codemodder/codemods/semgrep.py", "_create_temp_yaml_file"): "temporary semgrep rule file (tempfile.mkstemp, outside the project)",
    ("codemodder/codemods/xml_transformer.py", "XMLTransformerPipeline.apply"): "TemporaryFile for the SAX output; the project write is under the apply contract",
    ("codemodder/codemods/xml_transformer.py", "XMLTransformer.comment"): "XMLGenerator._write to the temporary output stream",
    ("codemodder/codemods/xml_transformer.py", "XMLTransformer.startCDATA"): "XMLGenerator._write to the temporary output stream",
    ("codemodder/codemods/xml_transformer.py", "XMLTransformer.endCDATA"): "XMLGenerator._write to the temporary output stream",
    ("codemodder/codemods/xml_transformer.py", "XMLTransformer.startDTD"): "XMLGenerator._write to the temporary output stream",
    ("codemodder/scripts/generate_docs.py", "*"): "developer script, not part of a codemodder run",
    ("codemodder/scripts/get_hashes.py", "*"): "developer script, not part of a codemodder run",
    ("codemodder/logging.py", "*"): "log output streams",
    ("codemodder/codemods/test/", "*"): "test-support helpers shipped with the package (used by the test-suite, never by a codemodder run)",
}


def _enclosing(tree):
    """node -> qualified name of the enclosing function (Class.func or func) or '<module>'"""
    out = {}

    def visit(node, stack):
        for ch in ast.iter_child_nodes(node):
            if isinstance(ch, (ast.FunctionDef, ast.AsyncFunctionDef)):
                visit(ch, stack + [ch.name])
            elif isinstance(ch, ast.ClassDef):
                visit(ch, stack + [ch.name])
            else:
                out[id(ch)] = ".".join(stack) if stack else "<module>"
                visit(ch, stack)
    visit(tree, [])
    return out


def _is_write_open(call):
    if isinstance(call.func, ast.Name) and call.func.id == "open" or (isinstance(call.func, ast.Attribute) and call.func.attr == "open"):
        mode = None
        if len(call.args) >= 2 and isinstance(call.args[1], ast.Constant):
            mode = call.args[1].value
        for k in call.keywords:
            if k.arg == "mode" and isinstance(k.value, ast.Constant):
                mode = k.value.value
        if isinstance(call.func, ast.Attribute) and call.args and isinstance(call.args[0], ast.Constant) and mode is None:
            mode = call.args[0].value      # path.open("w")
        return isinstance(mode, str) and any(c in mode for c in "wax+")
    return False


def scan(src_root, contracts):
    """-> list of site dicts with status"""
    effect_fns = set()
    for qn, c in contracts.items():
        if any(m == "ghost:fs" for m in (c.modifies or [])) and not qn.startswith(("dyn:", "opaque.")):
            effect_fns.add(qn)
    sites = []
    for pkg in ("codemodder", "core_codemods"):
        for dirpath, _, files in os.walk(os.path.join(src_root, pkg)):
            for fn in sorted(files):
                if not fn.endswith(".py"):
                    continue
                path = os.path.join(dirpath, fn)
                rel = os.path.relpath(path, src_root)
                try:
                    tree = ast.parse(open(path, encoding="utf-8").read())
                except SyntaxError:
                    continue
                enc = _enclosing(tree)
                mod = rel[:-3].replace("/", ".")
                for node in ast.walk(tree):
                    if not isinstance(node, ast.Call):
                        continue
                    kind = None
                    f = node.func
                    if _is_write_open(node):
                        kind = "open-for-writing"
                    elif isinstance(f, ast.Attribute) and f.attr in WRITE_METHODS and not (isinstance(f.value, ast.Name) and f.value.id in ("logger", "sys")):
                        kind = "." + f.attr
                        # str.replace / dict-like replace are not file operations: require a path-ish receiver for replace/rename
                        if f.attr in ("replace", "rename", "touch", "chmod", "truncate") and not _pathish(f.value):
                            kind = None
                        if f.attr == "write" and _is_std_stream(f.value):
                            kind = None
                    elif isinstance(f, ast.Attribute) and isinstance(f.value, ast.Name) and (f.value.id, f.attr) in WRITE_FUNCS:
                        kind = f"{f.value.id}.{f.attr}"
                    elif isinstance(f, ast.Attribute) and isinstance(f.value, ast.Name) and f.value.id in WRITE_MODULES:
                        kind = f"{f.value.id}.{f.attr}"
                    elif isinstance(f, ast.Name) and f.id in ("TemporaryFile", "NamedTemporaryFile", "mkstemp", "mkdtemp"):
                        kind = f.id
                    if kind is None:
                        continue
                    func = enc.get(id(node), "<module>")
                    qn = f"{mod}.{func}"
                    status, why = "refuted", "write primitive outside every effect contract and not on the allow-list"
                    if qn in effect_fns:
                        status, why = "discharged", f"inside {qn}, which is under an effect contract over the ghost file system"
                    else:
                        for (afile, afunc), reason in ALLOW.items():
                            if (rel == afile or (afile.endswith("/") and rel.startswith(afile))) and (afunc == "*" or afunc == func):
                                status, why = "discharged", "allow-list: " + reason
                                break
                    sites.append({"file": rel, "line": node.lineno, "function": func, "primitive": kind, "status": status, "why": why})
    return sites


def _pathish(v):
    s = ast.unparse(v).lower()
    return any(w in s for w in ("path", "file", "dir"))


def _is_std_stream(v):
    s = ast.unparse(v)
    return s in ("sys.stdout", "sys.stderr", "self._out", "out")


def obligations(src_root, contracts):
    out = []
    allow_notes = [f"write-site allow-list: {k[0]} {k[1]} - {v}" for k, v in ALLOW.items()]
    for s in scan(src_root, contracts):
        out.append({"id": f"F/write-site {s['file']}:{s['line']} [{s['primitive']} in {s['function']}]", "func": s["function"], "kind": "frame-site",
                    "label": None, "status": s["status"], "backend": "syntactic frame scan (ast)", "secs": 0.0, "reason": s["why"] if s["status"] != "discharged" else "",
                    "model": None, "path_notes": [s["why"]], "goal_size": 0, "replay": None, "clause": "every write primitive is under an effect contract or on the allow-list",
                    "assumptions": allow_notes})
    return out


# ---- shared mutable class state (S-obligations) --------------------------------------------------------------------------------------------
MUTATORS = {"append", "extend", "add", "update", "pop", "popleft", "remove", "insert", "clear", "setdefault", "sort", "discard", "appendleft"}


def _mutable_literal(v):
    if isinstance(v, (ast.List, ast.Dict, ast.Set)):
        return True
    return isinstance(v, ast.Call) and isinstance(v.func, ast.Name) and v.func.id in ("list", "dict", "set", "defaultdict", "deque", "OrderedDict")


# (file, name) -> reason.  A module-level table that is provably not per-file / per-run state (e.g. a memo of a pure function keyed by ALL of
# its arguments) may be listed here with its reason; the list is empty on the delivered tree and is part of the reported assumptions.
ALLOW_MODULE_STATE: dict = {}


def _module_state_obligations(tree, rel):
    """A module-level name bound to a mutable container (or rebound through `global`) and mutated from inside a function is one object for
    every worker thread and every run in the process.  One obligation per module-level mutable container."""
    glob = {}
    for b in tree.body:
        if isinstance(b, ast.Assign) and (_mutable_literal(b.value) or isinstance(b.value, (ast.ListComp, ast.DictComp, ast.SetComp))):
            for t in b.targets:
                if isinstance(t, ast.Name):
                    glob[t.id] = b.lineno
        elif isinstance(b, ast.AnnAssign) and b.value is not None and isinstance(b.target, ast.Name) \
                and (_mutable_literal(b.value) or isinstance(b.value, (ast.ListComp, ast.DictComp, ast.SetComp))):
            glob[b.target.id] = b.lineno
    mutated = {}
    for f in [n for n in ast.walk(tree) if isinstance(n, (ast.FunctionDef, ast.AsyncFunctionDef))]:
        local = {a.arg for a in f.args.posonlyargs + f.args.args + f.args.kwonlyargs}
        if f.args.vararg:
            local.add(f.args.vararg.arg)
        if f.args.kwarg:
            local.add(f.args.kwarg.arg)
        declared = set()
        for n in ast.walk(f):
            if isinstance(n, ast.Global):
                declared.update(n.names)
        for n in ast.walk(f):
            if isinstance(n, (ast.Assign, ast.AnnAssign, ast.AugAssign, ast.For, ast.NamedExpr)):
                tg = n.targets if isinstance(n, ast.Assign) else [n.target]
                for t in tg:
                    for x in ast.walk(t):
                        if isinstance(x, ast.Name) and isinstance(x.ctx, ast.Store):
                            if x.id in declared:
                                mutated.setdefault(x.id, (n.lineno, f.name))   # re-binding a module-level name from a function
                                glob.setdefault(x.id, n.lineno)
                            else:
                                local.add(x.id)
            elif isinstance(n, (ast.With, ast.AsyncWith)):
                for it in n.items:
                    if it.optional_vars is not None:
                        for x in ast.walk(it.optional_vars):
                            if isinstance(x, ast.Name):
                                local.add(x.id)
        for n in ast.walk(f):
            nm = None
            if isinstance(n, (ast.Assign, ast.AugAssign, ast.AnnAssign)):
                for t in (n.targets if isinstance(n, ast.Assign) else [n.target]):
                    if isinstance(t, ast.Subscript) and isinstance(t.value, ast.Name):
                        nm = t.value.id
            elif isinstance(n, ast.Delete):
                for t in n.targets:
                    if isinstance(t, ast.Subscript) and isinstance(t.value, ast.Name):
                        nm = t.value.id
            elif isinstance(n, ast.Call) and isinstance(n.func, ast.Attribute) and n.func.attr in MUTATORS | {"popitem", "__setitem__"} \
                    and isinstance(n.func.value, ast.Name):
                nm = n.func.value.id
            if nm in glob and nm not in local:
                mutated.setdefault(nm, (n.lineno, f.name))
    out = []
    for a, line in sorted(glob.items()):
        ok = a not in mutated or (rel, a) in ALLOW_MODULE_STATE
        why = (f"module-level `{a}` is never mutated from a function" if a not in mutated else
               f"module-level `{a}` is on the allow-list: {ALLOW_MODULE_STATE[(rel, a)]}" if ok else
               f"module-level `{a}` (line {line}) is one object for the whole process and is mutated in `{mutated[a][1]}` at line {mutated[a][0]}: "
               "state leaks between files processed concurrently and between runs")
        out.append({"id": f"S/shared-state {rel} [module.{a}]", "func": "<module>", "kind": "shared-state", "label": None,
                    "status": "discharged" if ok else "refuted", "backend": "syntactic scan (ast)", "secs": 0.0,
                    "reason": "" if ok else why, "model": None, "path_notes": [why], "goal_size": 0, "replay": None,
                    "clause": "mutable per-file / per-run state lives in an instance, not in a module-level object"})
    return out


def shared_state_obligations(src_root):
    """Per-file and per-run state must live in instances: a class attribute initialised to a mutable value and then mutated through `self`
    (without `__init__` re-binding it) is ONE object shared by every instance - by every file processed by a worker thread (C11) and by
    every run in the process (C09/C15).  One obligation per class attribute that is mutated through instances."""
    out = []
    for pkg in ("codemodder", "core_codemods"):
        for dirpath, _, files in os.walk(os.path.join(src_root, pkg)):
            if "/test" in dirpath or "scripts" in dirpath:
                continue
            for fn in sorted(files):
                if not fn.endswith(".py"):
                    continue
                path = os.path.join(dirpath, fn)
                rel = os.path.relpath(path, src_root)
                try:
                    tree = ast.parse(open(path, encoding="utf-8").read())
                except SyntaxError:
                    continue
                out.extend(_module_state_obligations(tree, rel))
                for cls in [n for n in ast.walk(tree) if isinstance(n, ast.ClassDef)]:
                    attrs = {}
                    for b in cls.body:
                        if isinstance(b, ast.Assign) and _mutable_literal(b.value):
                            for t in b.targets:
                                if isinstance(t, ast.Name):
                                    attrs[t.id] = b.lineno
                        elif isinstance(b, ast.AnnAssign) and b.value is not None and _mutable_literal(b.value) and isinstance(b.target, ast.Name):
                            attrs[b.target.id] = b.lineno
                    if not attrs:
                        continue
                    rebound, mutated = set(), {}
                    for m in [b for b in cls.body if isinstance(b, (ast.FunctionDef, ast.AsyncFunctionDef))]:
                        for n in ast.walk(m):
                            if isinstance(n, (ast.Assign, ast.AnnAssign)):
                                tg = n.targets if isinstance(n, ast.Assign) else [n.target]
                                for t in tg:
                                    if isinstance(t, ast.Attribute) and isinstance(t.value, ast.Name) and t.value.id == "self" and m.name == "__init__":
                                        rebound.add(t.attr)
                                    if isinstance(t, ast.Subscript) and isinstance(t.value, ast.Attribute) and isinstance(t.value.value, ast.Name) \
                                            and t.value.value.id == "self":
                                        mutated.setdefault(t.value.attr, n.lineno)
                            elif isinstance(n, ast.AugAssign) and isinstance(n.target, ast.Attribute) and isinstance(n.target.value, ast.Name) \
                                    and n.target.value.id == "self":
                                mutated.setdefault(n.target.attr, n.lineno)
                            elif isinstance(n, ast.Call) and isinstance(n.func, ast.Attribute) and n.func.attr in MUTATORS \
                                    and isinstance(n.func.value, ast.Attribute) and isinstance(n.func.value.value, ast.Name) and n.func.value.value.id == "self":
                                mutated.setdefault(n.func.value.attr, n.lineno)
                    for a, line in sorted(attrs.items()):
                        if a in mutated:
                            ok = a in rebound
                            why = (f"`{a}` is re-bound per instance in __init__" if ok else
                                   f"class attribute `{a}` (line {line}) holds one mutable object for ALL instances and is mutated through `self` at line {mutated[a]}; "
                                   "__init__ does not re-bind it: state leaks between files processed concurrently and between runs")
                            out.append({"id": f"S/shared-state {rel} [{cls.name}.{a}]", "func": cls.name, "kind": "shared-state", "label": None,
                                        "status": "discharged" if ok else "refuted", "backend": "syntactic scan (ast)", "secs": 0.0,
                                        "reason": "" if ok else why, "model": None, "path_notes": [why], "goal_size": 0, "replay": None,
                                        "clause": "mutable per-file / per-run state lives in the instance, not in the class"})
    return out


# ---- completion-order iteration (O-obligations) -------------------------------------------------------------------------------------------------
COMPLETION_ORDER = {"as_completed", "imap_unordered", "wait"}


def completion_order_obligations(src_root):
    """Results must not depend on thread scheduling.  The one construct that hands results over in COMPLETION order is iteration over
    `concurrent.futures.as_completed` / `wait` (or `Pool.imap_unordered`): every use in the two packages is an obligation that fails unless
    it is on the (empty) allow-list - the pool is to be consumed through `executor.map`, which yields in submission order (the contract of
    BaseCodemod._apply records exactly that work list).  A coverage record states how many call sites of the thread-pool API were seen."""
    out, pools = [], 0
    for pkg in ("codemodder", "core_codemods"):
        for dirpath, _, files in os.walk(os.path.join(src_root, pkg)):
            if "/test" in dirpath or "scripts" in dirpath:
                continue
            for fn in sorted(files):
                if not fn.endswith(".py"):
                    continue
                path = os.path.join(dirpath, fn)
                rel = os.path.relpath(path, src_root)
                try:
                    tree = ast.parse(open(path, encoding="utf-8").read())
                except SyntaxError:
                    continue
                for n in ast.walk(tree):
                    if isinstance(n, ast.Call):
                        name = n.func.attr if isinstance(n.func, ast.Attribute) else (n.func.id if isinstance(n.func, ast.Name) else None)
                        if name in ("ThreadPoolExecutor", "ProcessPoolExecutor", "Pool"):
                            pools += 1
                        recv = n.func.value.id if isinstance(n.func, ast.Attribute) and isinstance(n.func.value, ast.Name) else None
                        is_wait_of_futures = name == "wait" and (isinstance(n.func, ast.Name) or recv in ("futures", "concurrent"))
                        if (name in ("as_completed", "imap_unordered")) or is_wait_of_futures:
                            why = (f"`{name}` at {rel}:{n.lineno} yields results in completion order, which depends on thread scheduling; what is built from "
                                   "them (aggregates, report order) is then not a function of the project and the arguments")
                            out.append({"id": f"O/completion-order {rel} [{name}]", "func": rel, "kind": "completion-order", "label": None, "status": "refuted",
                                        "backend": "syntactic scan (ast)", "secs": 0.0, "reason": why, "model": None, "path_notes": [why], "goal_size": 0, "replay": None,
                                        "clause": "worker results are consumed in submission order (executor.map), never in completion order"})
    out.append({"id": "O/completion-order coverage [thread-pool call sites seen]", "func": "pyvc.framescan", "kind": "completion-order", "label": None,
                "status": "discharged" if pools >= 1 else "undecided", "backend": "syntactic scan (ast)", "secs": 0.0,
                "reason": "" if pools >= 1 else "unknown: no thread-pool construction was found: the scan is not seeing BaseCodemod._apply",
                "model": None, "path_notes": [f"{pools} pool construction site(s)"], "goal_size": 0, "replay": None,
                "clause": "vacuity guard: the scan sees the pool"})
    return out
