"""Type descriptors of the pyvc value model and their mapping to z3 sorts.

Python value           -> z3
int                    -> Int           (mathematical; Python ints are unbounded, so this is exact)
bool                   -> Bool
str                    -> String
bytes                  -> uninterpreted sort Bytes
list[T]                -> Seq(sort T)
tuple[T1..Tn]          -> datatype Tup_..
dict[K, V]             -> datatype {dom: Array K Bool, val: Array K V}  (+ uninterpreted key order when iterated)
set[T]                 -> Array T Bool
T | None               -> datatype Opt_T = none | some(T)
object of a repo class -> Ref (uninterpreted) + one heap array per field, or (value classes) a datatype
anything else          -> U (uninterpreted, "opaque"), accessed through uninterpreted functions
"""
from __future__ import annotations

import ast
import z3


class OutsideSubset(Exception):
    """The construct is not in the accepted subset: the function's obligations become *undecided*."""


class Ty:
    key: str

    def __eq__(self, o):
        return isinstance(o, Ty) and self.key == o.key

    def __hash__(self):
        return hash(self.key)

    def __repr__(self):
        return self.key


class _Prim(Ty):
    def __init__(self, key):
        self.key = key


INT = _Prim("int")
BOOL = _Prim("bool")
STR = _Prim("str")
BYTES = _Prim("bytes")
NONE = _Prim("None")
EXC = _Prim("Exc")
OPAQUE = _Prim("U")      # opaque external value


class TList(Ty):
    def __init__(self, elem):
        self.elem = elem
        self.key = f"list[{elem.key}]"


class TSet(Ty):
    def __init__(self, elem):
        self.elem = elem
        self.key = f"set[{elem.key}]"


class TDict(Ty):
    def __init__(self, k, v):
        self.k, self.v = k, v
        self.key = f"dict[{k.key},{v.key}]"


class TMap(Ty):
    """total map (ghost state): z3 array"""

    def __init__(self, k, v):
        self.k, self.v = k, v
        self.key = f"map[{k.key},{v.key}]"


class TTuple(Ty):
    def __init__(self, elems):
        self.elems = list(elems)
        self.key = "tuple[" + ",".join(e.key for e in self.elems) + "]"


class TOpt(Ty):
    def __init__(self, inner):
        assert not isinstance(inner, TOpt) and inner is not NONE
        self.inner = inner
        self.key = f"opt[{inner.key}]"


class TRef(Ty):
    """heap object of a (repo) class; identity semantics, mutable fields"""

    def __init__(self, cls):
        self.cls = cls
        self.key = f"ref:{cls}"


class TVal(Ty):
    """immutable record (structural equality) of a class: z3 datatype"""

    def __init__(self, cls):
        self.cls = cls
        self.key = f"val:{cls}"


def opt(t):
    if t is NONE:
        return NONE
    return t if isinstance(t, TOpt) else TOpt(t)


# ------------------------------------------------------------------------------------------------
# class models ("records")

class Record:
    def __init__(self, qualname, kind, fields, bases=(), pyclass=None):
        self.qualname = qualname
        self.short = qualname.split(".")[-1]
        self.kind = kind            # 'ref' | 'val'
        self.fields = fields        # name -> type string (parsed lazily)
        self.bases = list(bases)
        self.pyclass = pyclass
        self._parsed = {}


class Universe:
    """All sort-level state of one verification process."""

    def __init__(self):
        self.records: dict[str, Record] = {}
        self.by_short: dict[str, Record] = {}
        self.Ref = z3.DeclareSort("Ref")
        self.U = z3.DeclareSort("U")
        self.Bytes = z3.DeclareSort("Bytes")
        self.Exc = z3.DeclareSort("Exc")
        self._sorts = {}
        self._dts = {}
        self.aliases: dict[str, str] = {}      # type alias name -> type string
        self.null_ref = z3.Const("null!ref", self.Ref)

    # ---- records
    def add_record(self, rec: Record):
        self.records[rec.qualname] = rec
        self.by_short.setdefault(rec.short, rec)      # first declaration owns the short name

    def alias_of_class(self, qualname):
        for n, al in self.aliases.items():
            if isinstance(al, tuple) and al[1] == qualname:
                return n
        return None

    def record_of(self, name):
        if name in self.records:
            return self.records[name]
        return self.by_short.get(name.split(".")[-1])

    def field_ty(self, cls, field):
        """type of field in class (searching declared bases); None if unknown"""
        rec = self.record_of(cls)
        seen = set()
        todo = [rec] if rec else []
        while todo:
            r = todo.pop(0)
            if r.qualname in seen:
                continue
            seen.add(r.qualname)
            if field in r.fields:
                if field not in r._parsed:
                    r._parsed[field] = self.parse(r.fields[field])
                return r._parsed[field]
            for b in r.bases:
                br = self.record_of(b)
                if br:
                    todo.append(br)
        return None

    def all_fields(self, cls):
        rec = self.record_of(cls)
        out = {}
        seen = set()

        def go(r):
            if r is None or r.qualname in seen:
                return
            seen.add(r.qualname)
            for b in r.bases:
                go(self.record_of(b))
            for f in r.fields:
                out[f] = self.field_ty(r.qualname, f)
        go(rec)
        return out

    def is_subclass(self, a, b):
        """declared-record subclassing (by short or qualified name)"""
        ra, rb = self.record_of(a), self.record_of(b)
        if ra is None or rb is None:
            return a.split(".")[-1] == b.split(".")[-1]
        if ra.pyclass is not None and rb.pyclass is not None:
            try:
                return issubclass(ra.pyclass, rb.pyclass)
            except TypeError:
                pass
        seen = set()
        todo = [ra]
        while todo:
            r = todo.pop()
            if r.qualname == rb.qualname:
                return True
            if r.qualname in seen:
                continue
            seen.add(r.qualname)
            for bname in r.bases:
                br = self.record_of(bname)
                if br:
                    todo.append(br)
        return False

    # ---- type strings
    def parse(self, s) -> Ty:
        if isinstance(s, Ty):
            return s
        node = ast.parse(s.strip(), mode="eval").body
        return self._from_ast(node)

    def _from_ast(self, n) -> Ty:
        if isinstance(n, ast.Constant):
            if n.value is None:
                return NONE
            if isinstance(n.value, str):
                return self.parse(n.value)
            raise OutsideSubset(f"type constant {n.value!r}")
        if isinstance(n, ast.Name):
            return self._named(n.id)
        if isinstance(n, ast.Attribute):
            full = ast.unparse(n)
            if full in self.records:
                rec = self.records[full]
                return TRef(rec.qualname) if rec.kind == "ref" else TVal(rec.qualname)
            return self._named(n.attr)
        if isinstance(n, ast.BinOp) and isinstance(n.op, ast.BitOr):
            l, r = self._from_ast(n.left), self._from_ast(n.right)
            if l is NONE:
                return opt(r)
            if r is NONE:
                return opt(l)
            if l == r:
                return l
            if isinstance(l, TOpt) and l.inner == r:
                return l
            return OPAQUE
        if isinstance(n, ast.Subscript):
            head = n.value.id if isinstance(n.value, ast.Name) else n.value.attr
            args = n.slice.elts if isinstance(n.slice, ast.Tuple) else [n.slice]
            h = head.lower()
            if h in ("list", "sequence", "iterable", "iterator"):
                return TList(self._from_ast(args[0]))
            if h in ("set", "frozenset"):
                return TSet(self._from_ast(args[0]))
            if h in ("dict", "defaultdict", "mapping"):
                d = TDict(self._from_ast(args[0]), self._from_ast(args[1]))
                d.default = (h == "defaultdict")
                return d
            if h == "map":
                return TMap(self._from_ast(args[0]), self._from_ast(args[1]))
            if h == "tuple":
                return TTuple([self._from_ast(a) for a in args])
            if h == "optional":
                return opt(self._from_ast(args[0]))
            if h in ("type", "classvar"):
                return OPAQUE
            return OPAQUE
        raise OutsideSubset(f"type expression {ast.dump(n)}")

    def _named(self, name) -> Ty:
        if name in self.aliases:
            al = self.aliases[name]
            if isinstance(al, tuple):
                t = self.parse(al[0])
                t = _clone(t)
                t.cls = al[1]
                return t
            return self.parse(al)
        prim = {"int": INT, "bool": BOOL, "str": STR, "bytes": BYTES, "None": NONE, "Exc": EXC,
                "Any": OPAQUE, "Opaque": OPAQUE, "U": OPAQUE, "object": OPAQUE, "Path": OPAQUE}.get(name)
        if prim is not None:
            return prim
        rec = self.record_of(name)
        if rec is not None:
            return TRef(rec.qualname) if rec.kind == "ref" else TVal(rec.qualname)
        return OPAQUE

    # ---- sorts
    def sort(self, t: Ty):
        k = t.key
        if k in self._sorts:
            return self._sorts[k]
        s = self._mk_sort(t)
        self._sorts[k] = s
        return s

    def _mk_sort(self, t):
        if t is INT:
            return z3.IntSort()
        if t is BOOL:
            return z3.BoolSort()
        if t is STR:
            return z3.StringSort()
        if t is BYTES:
            return self.Bytes
        if t is EXC:
            return self.Exc
        if t is OPAQUE:
            return self.U
        if t is NONE:
            return self.sort(TOpt(OPAQUE))
        if isinstance(t, TRef):
            return self.Ref
        if isinstance(t, TList):
            from . import seqs
            return seqs.list_sort(self.sort(t.elem))
        if isinstance(t, TSet):
            return z3.ArraySort(self.sort(t.elem), z3.BoolSort())
        if isinstance(t, TMap):
            return z3.ArraySort(self.sort(t.k), self.sort(t.v))
        # constructor / accessor names are unique per datatype (SMT-LIB front ends other than z3 reject overloaded
        # constructors); the short names stay available as Python attributes of the sort object
        if isinstance(t, TDict):
            n = _mangle("Dict", t.key)
            dt = z3.Datatype(n)
            dt.declare("mkdict!" + n, ("dom!" + n, z3.ArraySort(self.sort(t.k), z3.BoolSort())),
                       ("val!" + n, z3.ArraySort(self.sort(t.k), self.sort(t.v))))
            dt = dt.create()
            dt.mkdict, dt.dom, dt.val = dt.constructor(0), dt.accessor(0, 0), dt.accessor(0, 1)
            self._dts[t.key] = dt
            return dt
        if isinstance(t, TTuple):
            n = _mangle("Tup", t.key)
            dt = z3.Datatype(n)
            dt.declare("mktup!" + n, *[(f"it{i}!" + n, self.sort(e)) for i, e in enumerate(t.elems)])
            dt = dt.create()
            dt.mktup = dt.constructor(0) if t.elems else dt.constructor(0)()
            self._dts[t.key] = dt
            return dt
        if isinstance(t, TOpt):
            n = _mangle("Opt", t.key)
            dt = z3.Datatype(n)
            dt.declare("none!" + n)
            dt.declare("some!" + n, ("get!" + n, self.sort(t.inner)))
            dt = dt.create()
            dt.none, dt.some, dt.get = dt.constructor(0)(), dt.constructor(1), dt.accessor(1, 0)
            dt.is_none, dt.is_some = dt.recognizer(0), dt.recognizer(1)
            self._dts[t.key] = dt
            return dt
        if isinstance(t, TVal):
            fields = self.all_fields(t.cls)
            n = _mangle("V", t.cls)
            dt = z3.Datatype(n)
            dt.declare("mk!" + n, *[(f"f_{f}!" + n, self.sort(ft)) for f, ft in fields.items()])
            dt = dt.create()
            dt.mk = dt.constructor(0) if fields else dt.constructor(0)()
            self._dts[t.key] = dt
            return dt
        raise OutsideSubset(f"no sort for {t}")

    def dt(self, t: Ty):
        self.sort(t)
        return self._dts[t.key]


def _clone(t):
    import copy
    return copy.copy(t)


def _mangle(prefix, key):
    out = "".join(c if c.isalnum() else "_" for c in key)
    return f"{prefix}_{out}"
