"""pyvc command line:  check <Cxx> [--tier quick|thorough]  |  check replay <file>

exit 0  every obligation discharged (known findings printed as KNOWN-FINDING)
exit 1  a refuted obligation that is not a listed known finding  (VIOLATION line)
exit 2  undecided (solver unknown / outside-subset)      - never a VIOLATION line
exit 3  checker crash / vacuity alarm                     - never a VIOLATION line
"""
from __future__ import annotations

import hashlib
import importlib
import json
import multiprocessing as mp
import os
import pkgutil
import sys
import time

HERE = os.path.dirname(os.path.dirname(os.path.abspath(__file__)))


def load_contracts():
    import contracts
    names = sorted(m.name for m in pkgutil.iter_modules(contracts.__path__))
    # base first
    for n in ["base"] + [n for n in names if n not in ("base", "props")]:
        importlib.import_module(f"contracts.{n}")
    from pyvc.api import REG
    return REG


def _worker(args):
    qualname, tier, extra_false = args
    from pyvc.api import REG
    from pyvc.verify import verify_function, verify_lemma
    if qualname.startswith("lemma:"):
        lem = next(l for l in REG.lemmas if l["name"] == qualname[6:])
        rep = verify_lemma(REG, lem, tier)
        return {"qualname": qualname, "file": None, "ast_hash": None, "lines": 0, "obligations": rep.obligations,
                "error": rep.error, "error_kind": rep.error_kind, "assumptions": rep.assumptions, "dropped": rep.dropped,
                "inlined": {}, "paths": 0, "secs": rep.secs, "sanity": False, "feas_checks": 0}
    if extra_false:
        import copy
        c = copy.copy(REG.contracts[qualname])
        c.ensures = list(c.ensures) + [("sanity-must-fail", "False")]
        c.covers = []
        saved = REG.contracts[qualname]
        REG.contracts[qualname] = c
        try:
            rep = verify_function(REG, qualname, tier)
        finally:
            REG.contracts[qualname] = saved
    else:
        rep = verify_function(REG, qualname, tier)
    return {"qualname": qualname, "file": rep.file, "ast_hash": rep.ast_hash, "lines": rep.lines, "source": getattr(rep, "source", None),
            "obligations": rep.obligations, "error": rep.error, "error_kind": rep.error_kind,
            "assumptions": rep.assumptions, "dropped": rep.dropped, "inlined": rep.inlined, "paths": rep.paths,
            "secs": rep.secs, "sanity": bool(extra_false), "feas_checks": rep.feas_checks}


def _smallest(targets):
    from pyvc import locate
    best, bl = targets[0], 10 ** 9
    for q in targets:
        try:
            obj, owner, mod = locate.resolve(q)
            fn = locate.unwrap(obj)[0]
            fdef, _ = locate.find_def(fn)
            n = fdef.end_lineno - fdef.lineno
            if n < bl and not any(isinstance(x, (__import__("ast").ListComp, __import__("ast").For)) for x in __import__("ast").walk(fdef)):
                best, bl = q, n
        except Exception:
            continue
    return best


def known_findings():
    p = os.path.join(HERE, "known_findings.json")
    if not os.path.exists(p):
        return []
    return json.load(open(p)).get("findings", [])


def main(argv=None):
    argv = list(sys.argv[1:] if argv is None else argv)
    if not argv:
        print(__doc__)
        return 3
    if argv[0] == "replay":
        if len(argv) < 2 or not os.path.exists(argv[1]):
            print("usage: ./check replay <replay file written by a check (replay/<property>/<id>.json)>")
            return 3
        from pyvc.replay_cli import replay_file
        return replay_file(argv[1])
    prop = argv[0]
    tier = "quick"
    if "--tier" in argv:
        tier = argv[argv.index("--tier") + 1]
    tier = os.environ.get("VERIF_TIER", tier)
    seed = int(os.environ.get("VERIF_SEED", "0") or 0)
    t0 = time.time()
    try:
        REG = load_contracts()
        code = run_property(REG, prop, tier, seed, t0)
    except Exception:
        import traceback
        traceback.print_exc()
        print(f"CHECKER-ERROR property={prop}")
        return 3
    return code


def run_property(REG, prop, tier, seed, t0):
    targets = list(REG.targets.get(prop, []))
    props_mod = None
    try:
        props_mod = importlib.import_module(f"contracts.props.{prop}")
    except ModuleNotFoundError:
        props_mod = None
    if props_mod is not None and hasattr(props_mod, "TARGETS"):
        for q in props_mod.TARGETS:
            if q not in targets:
                targets.append(q)
    if not targets and props_mod is None:
        print(f"no obligations are defined for {prop}")
        return 3
    jobs = [(q, tier, False) for q in targets]
    for lem in REG.lemmas:
        if prop in lem.get("props", []):
            jobs.append(("lemma:" + lem["name"], tier, False))
    if targets:
        # deliberately false obligation (post: False) on the smallest target: must come back refuted
        jobs.append((getattr(props_mod, "SANITY_TARGET", None) or _smallest(targets), tier, True))
    nproc = min(16, max(1, len(jobs)))
    ctx = mp.get_context("fork")
    with ctx.Pool(nproc) as pool:
        reports = pool.map(_worker, jobs, chunksize=1)
    sanity = [r for r in reports if r["sanity"]]
    reports = [r for r in reports if not r["sanity"]]
    extra = []
    if props_mod is not None and hasattr(props_mod, "extra_checks"):
        extra = props_mod.extra_checks(tier=tier, seed=seed) or []
    return finish(REG, prop, tier, seed, t0, reports, sanity, extra, props_mod)


def _stable_id(i):
    import re
    return re.sub(r"@L\d+", "", i)


def _load_baseline(prop):
    p = os.path.join(HERE, "contracts", "baseline", f"{prop}.json")
    if os.path.exists(p):
        try:
            return json.load(open(p))
        except Exception:      # noqa
            return {}
    return {}


def finish(REG, prop, tier, seed, t0, reports, sanity, extra, props_mod):
    from pyvc import locate
    kf = [k for k in known_findings() if k.get("property") == prop]
    known_ids = {k["obligation"]: k for k in kf if k.get("status") == "known"}
    all_obls, undecided, crashed, refuted = [], [], [], []
    for r in reports:
        if r["error"]:
            (crashed if r["error_kind"] == "crash" else undecided).append((r["qualname"], r["error"]))
        for o in r["obligations"]:
            all_obls.append(o)
    # obligations with the same id on several paths are one named obligation: worst status wins
    by_id = {}
    order = {"refuted": 3, "undecided": 2, "discharged": 1, None: 0}
    for o in all_obls:
        cur = by_id.get(o["id"])
        if cur is None or order[o["status"]] > order[cur["status"]]:
            agg = dict(o)
            agg["paths"] = (cur["paths"] if cur else 0) + 1
            agg["secs"] = round((cur["secs"] if cur else 0) + o["secs"], 4)
            by_id[o["id"]] = agg
        else:
            cur["paths"] += 1
            cur["secs"] = round(cur["secs"] + o["secs"], 4)
    named = [o for o in by_id.values() if o.get("kind") != "bounded"]
    bounded = [dict(o, evaluations=o.get("evaluations", 0)) for o in by_id.values() if o.get("kind") == "bounded"]
    for x in extra:
        if x.get("kind") == "bounded":
            bounded.append(x)
        else:
            named.append(x)
    # an obligation that was discharged on the baseline tree, whose function has since CHANGED, and on which the solver now
    # gives up (unknown / timeout after the full attempt) is reported as failed -- without a failing input.  The same
    # `unknown` on an unchanged function stays undecided (solver instability is not evidence about the code).
    base = _load_baseline(prop)
    cur_hash = {r["qualname"]: r["ast_hash"] for r in reports}
    for o in named:
        if o["status"] == "undecided" and str(o.get("reason", "")).startswith("unknown") and _stable_id(o["id"]) in base.get("discharged", ()):
            fn = o.get("func")
            old_h, new_h = base.get("functions", {}).get(fn), cur_hash.get(fn)
            if old_h and new_h and old_h != new_h:
                o["status"] = "refuted"
                o["reason"] = (f"this obligation was discharged on the baseline tree (function hash {old_h}); the function has changed "
                               f"(hash {new_h}) and the obligation is no longer provable -- solver: {o.get('reason')}")
    for o in named:
        if o["status"] == "refuted":
            refuted.append(o)
        elif o["status"] == "undecided":
            undecided.append((o["id"], o.get("reason", "")))
    for b in bounded:
        if b["status"] == "refuted":
            refuted.append(b)
    # vacuity guards
    floors = {}
    fp = os.path.join(HERE, "contracts", "floors.json")
    if os.path.exists(fp):
        floors = json.load(open(fp))
    alarms = []
    n_named = len([o for o in named])
    if n_named == 0:
        alarms.append("zero obligations generated")
    if prop in floors and n_named < floors[prop]:
        alarms.append(f"only {n_named} obligations generated, floor is {floors[prop]}")
    if reports and not any(o["status"] == "refuted" and (o.get("label") == "sanity-must-fail") for s in sanity for o in s["obligations"]):
        alarms.append("the deliberately false obligation was NOT refuted: solver plumbing is not alive")
    os.makedirs(os.path.join(HERE, "evidence"), exist_ok=True)
    os.makedirs(os.path.join(HERE, "replay", prop), exist_ok=True)
    for old in os.listdir(os.path.join(HERE, "replay", prop)):
        os.unlink(os.path.join(HERE, "replay", prop, old))
    lines = []
    violations = 0
    known_hit = []
    for o in refuted:
        k = known_ids.get(o["id"])
        if k is not None:
            known_hit.append(o["id"])
            lines.append(f"KNOWN-FINDING: property={prop} {o['id']} :: {k.get('what', '')}")
            continue
        violations += 1
        rp = os.path.join(HERE, "replay", prop, hashlib.sha1(o["id"].encode()).hexdigest()[:12] + ".json")
        rec = {"property": prop, "obligation": o["id"], "function": o.get("func"), "clause": o.get("clause"),
               "solver_output": {"status": o["status"], "backend": o.get("backend"), "reason": o.get("reason"), "model": o.get("model")},
               "path_notes": o.get("path_notes"), "replay": o.get("replay"), "source_hashes": locate.file_hashes(),
               "how_to_rerun": f"./check replay {os.path.relpath(rp, HERE)}"}
        json.dump(rec, open(rp, "w"), indent=1, default=str)
        reproduced = bool((o.get("replay") or {}).get("reproduced"))
        lines.append(f"VIOLATION property={prop} replay={rp}" + ("" if reproduced else " no-failing-input-found"))
    discharged = len([o for o in named if o["status"] == "discharged"])
    functions = [{"qualname": r["qualname"], "file": r["file"], "ast_hash": r["ast_hash"], "lines": r["lines"],
                  "paths": r["paths"], "secs": round(r["secs"], 3), "error": r["error"]} for r in reports]
    inlined = {}
    assumptions, dropped = set(), set()
    for r in reports:
        inlined.update(r["inlined"])
        assumptions.update(r["assumptions"])
        dropped.update(r["dropped"])
    for x in extra:
        for a in x.get("assumptions", []):
            assumptions.add(a)
    by_backend = {}
    for o in named:
        by_backend[o.get("backend") or "none"] = by_backend.get(o.get("backend") or "none", 0) + 1
    slowest = sorted(named, key=lambda o: -o.get("secs", 0))[:10]
    meta = getattr(props_mod, "META", {}) if props_mod is not None else {}
    ev = {
        "property_id": prop, "tier": tier, "seed": seed, "level": "proof",
        "coverage": {
            "obligations": n_named, "discharged": discharged,
            "checker_cmd": f"./check {prop} --tier {tier}",
            "trusted_base": sorted(a for a in assumptions),
            "functions_under_contract": functions,
            "functions_inlined_into_callers": inlined,
            "vcs_per_path": len(all_obls),
            "by_backend": by_backend,
            "solver_time_s": round(sum(o.get("secs", 0) for o in named), 3),
            "slowest": [{"id": o["id"], "secs": o.get("secs", 0)} for o in slowest],
            "undecided": [{"id": i, "reason": r} for i, r in undecided],
            "refuted": [o["id"] for o in refuted],
            "known_findings_hit": known_hit,
            "bounded_standins": [{k: v for k, v in b.items() if k != "assumptions"} for b in bounded],
            "dropped_by_extraction": sorted(dropped),
            "samples": [{"id": o["id"], "status": o["status"], "backend": o.get("backend"), "secs": o.get("secs"),
                         "paths": o.get("paths", 1), "goal_size": o.get("goal_size")} for o in named[:40]],
            "out_of_reach": meta.get("out_of_reach", []),
            "sanity_false_obligation_refuted": not any("deliberately false" in a for a in alarms),
            "explanation": meta.get("explanation", ""),
            "source_hashes": locate.file_hashes(),
        },
        "assumptions": sorted(assumptions) + [f"dropped by extraction: {d}" for d in sorted(dropped)],
        "wall_s": round(time.time() - t0, 2),
        "violations": violations,
    }
    json.dump(ev, open(os.path.join(HERE, "evidence", f"{prop}.json"), "w"), indent=1, default=str)
    for l in lines:
        print(l)
    print(f"{prop}: obligations={n_named} discharged={discharged} refuted={len(refuted)} (known={len(known_hit)}) "
          f"undecided={len(undecided)} crashed={len(crashed)} functions={len(reports)} bounded={len(bounded)} wall={ev['wall_s']}s")
    for q, e in crashed:
        print(f"CRASH {q}: {e}")
    for i, r in undecided:
        print(f"UNDECIDED {i}: {r}")
    for a in alarms:
        print(f"VACUITY-ALARM {a}")
    if violations:
        return 1
    if crashed or alarms:
        return 3
    if undecided:
        return 2
    if os.environ.get("PYVC_WRITE_BASELINE") == "1":
        os.makedirs(os.path.join(HERE, "contracts", "baseline"), exist_ok=True)
        json.dump({"_comment": "obligations discharged on the tree these function hashes were taken from (written by PYVC_WRITE_BASELINE=1 ./check; never at check time)",
                   "functions": {r["qualname"]: r["ast_hash"] for r in reports},
                   "discharged": sorted({_stable_id(o["id"]) for o in named if o["status"] == "discharged"})},
                  open(os.path.join(HERE, "contracts", "baseline", f"{prop}.json"), "w"), indent=1)
        sp = os.path.join(HERE, "contracts", "baseline", "_sources.json")
        srcs = json.load(open(sp)) if os.path.exists(sp) else {}
        for r in reports:
            if r.get("source"):
                srcs[r["qualname"]] = {"hash": r["ast_hash"], "source": r["source"]}
        json.dump(srcs, open(sp, "w"), indent=1, sort_keys=True)
    return 0


if __name__ == "__main__":
    sys.exit(main())
