"""Statements, loops (invariants), try/except, with, match; and the per-function verification driver."""
from __future__ import annotations

import ast

import z3

from . import seqs as Q

from . import locate
from .api import parse_expr
from .calls import eval_spec, spec_state, havoc_all
from .engine import MUTATORS, _container, _m
from .ty import *      # noqa
from .values import *  # noqa

TRANSPARENT_CMS = ("timer.measure",)


def local_names(fdef):
    names = set()
    for n in ast.walk(fdef):
        if isinstance(n, ast.Name) and isinstance(n.ctx, (ast.Store, ast.Del)):
            names.add(n.id)
        elif isinstance(n, ast.ExceptHandler) and n.name:
            names.add(n.name)
        elif isinstance(n, ast.alias):
            names.add((n.asname or n.name).split(".")[0])
    for a in fdef.args.args + fdef.args.kwonlyargs + fdef.args.posonlyargs:
        names.discard(a.arg)
    return names


def exec_block(E, stmts, st):
    """-> list of states after the block (normal and abnormal)"""
    cur = [st]
    done = []
    for s in stmts:
        nxt = []
        for c in cur:
            if c.status is not None:
                done.append(c)
                continue
            outs = exec_stmt(E, s, c)
            for o in outs:
                (nxt if o.status is None else done).append(o)
        cur = nxt
        if not cur:
            break
    return cur + done


def exec_stmt(E, node, st):
    m = globals().get("x_" + type(node).__name__)
    if m is None:
        raise OutsideSubset(f"statement {type(node).__name__} at line {node.lineno}")
    saved = E.sink
    E.sink = []
    try:
        outs = list(m(E, node, st))
        outs += E.sink
    finally:
        E.sink = saved
    return outs


# ---- simple statements ---------------------------------------------------------------------------
def x_Expr(E, node, st):
    if isinstance(node.value, ast.Constant):
        yield st
        return
    for s, _ in E.ev(node.value, st):
        yield s


def x_Pass(E, node, st):
    yield st


def x_Import(E, node, st):
    import importlib
    for a in node.names:
        mod = importlib.import_module(a.name)
        st.env[a.asname or a.name.split(".")[0]] = PyObj(mod if a.asname else importlib.import_module(a.name.split(".")[0]))
    yield st


def x_ImportFrom(E, node, st):
    import importlib
    g = st.env.get("__globals__")
    pkg = g.obj.get("__package__") if g is not None else None
    mod = importlib.import_module("." * node.level + (node.module or ""), pkg) if node.level else importlib.import_module(node.module)
    for a in node.names:
        st.env[a.asname or a.name] = PyObj(getattr(mod, a.name))
    yield st


def x_Return(E, node, st):
    if node.value is None:
        st.status = ("return", SVal(None, NONE))
        yield st
        return
    for s, v in E.ev(node.value, st):
        s.status = ("return", v)
        yield s


def x_Break(E, node, st):
    st.status = ("break",)
    yield st


def x_Continue(E, node, st):
    st.status = ("continue",)
    yield st


def x_Delete(E, node, st):
    for t in node.targets:
        if isinstance(t, ast.Name):
            st.env.pop(t.id, None)
        elif isinstance(t, ast.Subscript):
            outs = []
            for s, base in E.ev(t.value, st):
                for s2, idx in E.ev(t.slice, s):
                    if not (isinstance(base, SVal) and isinstance(base.ty, TList)):
                        raise OutsideSubset("del on non-list subscript")
                    i = E.coerce(idx, INT, s2).t
                    n = Q.Length(base.t)
                    s3 = E.guard(s2, z3.And(0 <= i, i < n), IndexError, "del index out of range")
                    if s3 is None:
                        continue
                    nv = SVal(Q.Concat(Q.Extract(base.t, 0, i), Q.Extract(base.t, i + 1, n - i - 1)), base.ty)
                    lv = base.origin or (LV("var", t.value.id) if isinstance(t.value, ast.Name) else None)
                    E.mutate(s3, lv, base, nv)
                    outs.append(s3)
            yield from outs
            return
        else:
            raise OutsideSubset("del target")
    yield st


def x_Assert(E, node, st):
    for s, v in E.ev(node.test, st):
        for br, s2 in E.branch(s, E.truthy(v, s)):
            if br:
                yield s2
            else:
                s2.note("assert fails")
                E.raise_exc(s2, E.new_exc(AssertionError, s2))


def x_Raise(E, node, st):
    if node.exc is None:
        cur = st.env.get("__cur_exc__")
        if cur is None:
            raise OutsideSubset("bare raise outside handler")
        st.status = ("raise", cur)
        yield st
        return
    for s, v in E.ev(node.exc, st):
        if isinstance(v, PyObj) and isinstance(v.obj, type) and issubclass(v.obj, BaseException):
            v = E.new_exc(v.obj, s)
        if not (isinstance(v, SVal) and v.ty is EXC):
            raise OutsideSubset("raise of a non-exception value")
        s.status = ("raise", v)
        yield s


def assign_target(E, target, val, st):
    """generator of states"""
    if isinstance(target, ast.Name):
        if isinstance(val, SVal) and _container(val.ty) and val.origin is not None:
            val = SVal(val.t, val.ty, val.origin)
        E.assign_lv(st, LV("var", target.id), val if not isinstance(val, SVal) else SVal(val.t, val.ty, val.origin))
        yield st
    elif isinstance(target, (ast.Tuple, ast.List)):
        if isinstance(val, STuple):
            if len(val.items) != len(target.elts):
                raise OutsideSubset("unpack arity")
            items = val.items
        elif isinstance(val, SVal) and isinstance(val.ty, TTuple):
            dt = E.U.dt(val.ty)
            items = [SVal(dt.accessor(0, i)(val.t), e) for i, e in enumerate(val.ty.elems)]
        elif isinstance(val, SVal) and isinstance(val.ty, TVal):
            # namedtuple-like value record: unpacks into its fields in declaration order
            dt = E.U.dt(val.ty)
            items = [SVal(dt.accessor(0, i)(val.t), fty) for i, fty in enumerate(E.U.all_fields(val.ty.cls).values())]
            if len(items) != len(target.elts):
                raise OutsideSubset("unpack arity")
        elif isinstance(val, SVal) and isinstance(val.ty, TList):
            n = len(target.elts)
            st = E.guard(st, Q.Length(val.t) == n, ValueError, "unpack: wrong number of values")
            if st is None:
                return
            items = [SVal(Q.At(val.t, i), val.ty.elem) for i in range(n)]
        else:
            raise OutsideSubset(f"unpack of {val!r}")
        cur = [st]
        for t, v in zip(target.elts, items):
            nxt = []
            for s in cur:
                nxt.extend(assign_target(E, t, v, s))
            cur = nxt
        yield from cur
    elif isinstance(target, ast.Attribute):
        for s, obj in E.ev(target.value, st):
            if isinstance(obj, SVal) and isinstance(obj.ty, TOpt):
                s, obj = E.unwrap(obj, s, "attribute store")
                if s is None:
                    continue
            if isinstance(obj, SVal) and isinstance(obj.ty, TRef):
                E.write_field(s, obj, target.attr, val)
                yield s
            elif isinstance(obj, SVal) and isinstance(obj.ty, TVal):
                raise OutsideSubset(f"attribute store on value record {obj.ty.cls}.{target.attr}")
            else:
                raise OutsideSubset(f"attribute store on {obj!r}")
    elif isinstance(target, ast.Subscript):
        for s, base in E.ev(target.value, st):
            for s2, idx in E.ev(target.slice, s):
                lv = base.origin if isinstance(base, SVal) else None
                if lv is None and isinstance(target.value, ast.Name):
                    lv = LV("var", target.value.id)
                if isinstance(base, Empty):
                    if base.kind != "dict":
                        raise OutsideSubset("subscript store into empty list")
                    k = E.materialize(idx, s2) if not isinstance(idx, SVal) else idx
                    v = E.materialize(val, s2) if not isinstance(val, SVal) else val
                    ty = TDict(k.ty, v.ty)
                    base2 = E.empty_of(ty)
                    E.assign_lv(s2, lv, base2)
                    E.assign_lv(s2, LV("key", lv, k), v)
                    yield s2
                    continue
                if lv is None:
                    raise OutsideSubset("subscript store into a temporary")
                if isinstance(base, SVal) and isinstance(base.ty, TList):
                    i = E.coerce(idx, INT, s2).t
                    n_ = Q.Length(base.t)
                    if z3.is_int_value(i) and i.as_long() < 0:
                        i = n_ + i
                        idx = SVal(i, INT)
                        okc = i >= 0
                    else:
                        okc = z3.And(0 <= i, i < n_)
                    s2 = E.guard(s2, okc, IndexError, "list assignment index out of range")
                    if s2 is None:
                        continue
                E.assign_lv(s2, LV("key", lv, idx), val)
                if lv.kind == "var" and isinstance(base, SVal) and base.origin is not None and base.origin is not lv:
                    E.assign_lv(s2, base.origin, s2.env[lv.a])
                yield s2
    else:
        raise OutsideSubset("assignment target")


def x_Assign(E, node, st):
    for s, v in E.ev(node.value, st):
        cur = [s]
        for t in node.targets:
            nxt = []
            for c in cur:
                nxt.extend(assign_target(E, t, v, c))
            cur = nxt
        # `obj.f = x` / `d[k] = x` with a local container x: from now on x and the stored place are ONE object in Python.  The value
        # model keeps them in step by re-binding the local to a write-through view of the place it was stored in.
        if isinstance(node.value, ast.Name) and (isinstance(v, Empty) or (isinstance(v, SVal) and _container(v.ty))):
            for t in node.targets:
                if isinstance(t, (ast.Subscript, ast.Attribute)):
                    out = []
                    for c in cur:
                        try:
                            views = list(E.ev(_load(t), c))
                        except OutsideSubset:
                            views = []
                        if len(views) == 1 and views[0][0] is c and isinstance(views[0][1], SVal) and views[0][1].origin is not None:
                            c.env[node.value.id] = views[0][1]
                            E.assumptions.add("a local container stored into an object field / container is a write-through alias of that place")
                        else:
                            c.note(f"local '{node.value.id}' stored at line {node.lineno}: later in-place mutation would not be tracked")
                            c.env["__stored__:" + node.value.id] = SVal(None, NONE)
                        out.append(c)
                    cur = out
                    break
        yield from cur


def x_AnnAssign(E, node, st):
    if node.value is None:
        yield st
        return
    for s, v in E.ev(node.value, st):
        if isinstance(v, Empty) and isinstance(node.target, ast.Name):
            try:
                ty = E.U._from_ast(node.annotation)
                if _container(ty):
                    v = E.empty_of(ty)
                    v = SVal(v.t, ty.inner if isinstance(ty, TOpt) else ty)
            except OutsideSubset:
                pass
        yield from assign_target(E, node.target, v, s)


def x_AugAssign(E, node, st):
    t = node.target
    for s, cur in E.ev(_load(t), st):
        for s2, rhs in E.ev(node.value, s):
            # CPython: type(lhs).__iop__ if defined else lhs = lhs op rhs -- looked up on the REAL class for tagged dicts
            if isinstance(node.op, ast.BitOr) and isinstance(cur, SVal) and isinstance(cur.ty, TDict):
                yield from _ior_dict(E, t, cur, rhs, s2, node)
                continue
            if isinstance(node.op, ast.Add) and isinstance(cur, (SVal, Empty)) and (isinstance(cur, Empty) or isinstance(cur.ty, TList)):
                # list += iterable is in-place extend
                from .builtins_ import list_method, empty_method
                lv = _lv_of(E, t, s2)
                if isinstance(cur, Empty):
                    for s3, _ in empty_method(E, cur, "extend", lv, [rhs], {}, s2, node):
                        yield s3
                else:
                    for s3, _ in list_method(E, cur, "extend", lv, [rhs], {}, s2, node):
                        yield s3
                continue
            for s3, v in E.binop(node.op, cur, rhs, s2, node):
                yield from assign_target(E, t, v, s3)


def _ior_dict(E, target, cur, rhs, st, node):
    from .builtins_ import dict_method
    from .calls import call_repo
    tag = getattr(cur.ty, "cls", None)
    lv = _lv_of(E, target, st)
    if tag is not None:
        k = locate.resolve(tag)[0]
        for name in ("__ior__", "__or__"):
            for kk in k.__mro__:
                if name in kk.__dict__:
                    if kk.__module__ == "builtins":
                        st.note(f"`|=` dispatches to {kk.__name__}.{name} (found on the real MRO of {k.__name__})")
                        for s2, v in dict_method(E, cur, name, lv, [rhs], {}, st, node):
                            if name == "__or__":
                                yield from assign_target(E, target, v, s2)
                            else:
                                yield s2
                        return
                    fn = locate.unwrap(kk.__dict__[name])[0]
                    qn = f"{kk.__module__}.{kk.__qualname__}.{name}"
                    st.note(f"`|=` dispatches to {qn}")
                    c = E.reg.contracts.get(qn)
                    if c is not None and not c.inline:
                        from .calls import apply_contract
                        gen = apply_contract(E, c, fn, [SVal(cur.t, cur.ty, lv), rhs], {}, st, node)
                    else:
                        gen = call_repo(E, fn, qn, [SVal(cur.t, cur.ty, lv), rhs], {}, st, (), node, owner=kk)
                    for s2, v in gen:
                        yield from assign_target(E, target, v, s2)
                    return
    for s2, _ in dict_method(E, cur, "__ior__", lv, [rhs], {}, st, node):
        yield s2


def _load(t):
    t2 = ast.parse(ast.unparse(t), mode="eval").body
    ast.copy_location(t2, t)
    for n in ast.walk(t2):
        if not hasattr(n, "lineno"):
            n.lineno = getattr(t, "lineno", 0)
    return t2


def _lv_of(E, t, st):
    if isinstance(t, ast.Name):
        return LV("var", t.id)
    if isinstance(t, ast.Attribute):
        obj = E.ev1p(t.value, st)
        return LV("attr", obj, t.attr)
    if isinstance(t, ast.Subscript) and not isinstance(t.slice, ast.Slice):
        base_lv = _lv_of(E, t.value, st)
        return LV("key", base_lv, E.ev1p(t.slice, st))
    raise OutsideSubset("augmented assignment target")


# ---- control flow ---------------------------------------------------------------------------------
def x_If(E, node, st):
    for s, c in E.ev(node.test, st):
        for br, s2 in E.branch(s, E.truthy(c, s)):
            narrow(E, node.test, br, s2)
            yield from exec_block(E, node.body if br else node.orelse, s2)


def narrow(E, test, truth, st):
    """Optional-typed locals whose None-ness is decided by the branch condition are rebound to the unwrapped value"""
    if isinstance(test, ast.UnaryOp) and isinstance(test.op, ast.Not):
        narrow(E, test.operand, not truth, st)
        return
    if isinstance(test, ast.BoolOp):
        if isinstance(test.op, ast.And) and truth:
            for v in test.values:
                narrow(E, v, True, st)
        if isinstance(test.op, ast.Or) and not truth:
            for v in test.values:
                narrow(E, v, False, st)
        return
    name, positive = None, None
    if isinstance(test, ast.Compare) and len(test.ops) == 1 and isinstance(test.comparators[0], ast.Constant) and test.comparators[0].value is None:
        tgt = test.left.target if isinstance(test.left, ast.NamedExpr) else test.left
        if isinstance(tgt, ast.Name):
            name = tgt.id
            positive = isinstance(test.ops[0], ast.IsNot)     # `x is not None` true -> not None
            if not isinstance(test.ops[0], (ast.Is, ast.IsNot)):
                return
            known_some = (truth == positive)
    elif isinstance(test, (ast.Name, ast.NamedExpr)):
        tgt = test.target if isinstance(test, ast.NamedExpr) else test
        if isinstance(tgt, ast.Name):
            name = tgt.id
            known_some = truth            # truthy => not None
    if name is None or name not in st.env:
        return
    v = st.env[name]
    if isinstance(v, SVal) and isinstance(v.ty, TOpt) and known_some:
        dt = E.U.dt(v.ty)
        st.env[name] = SVal(dt.get(v.t), v.ty.inner, v.origin)


def x_With(E, node, st):
    from .fsmodel import enter_cm
    cur = [st]
    exits = []
    for item in node.items:
        nxt = []
        for s in cur:
            src = ast.unparse(item.context_expr)
            if any(t in src for t in TRANSPARENT_CMS):
                E.dropped.add("timer.measure(...) context managers (transparent: body runs, exceptions propagate)")
                nxt.append(s)
                continue
            for s2, cm in E.ev(item.context_expr, s):
                for s3, val in enter_cm(E, cm, s2, node):
                    if item.optional_vars is not None:
                        nxt.extend(assign_target(E, item.optional_vars, val, s3))
                    else:
                        nxt.append(s3)
        cur = nxt
    for s in cur:
        yield from exec_block(E, node.body, s)


def x_Try(E, node, st):
    body_outs = exec_block(E, node.body, st)
    after = []
    for s in body_outs:
        if s.status is not None and s.status[0] == "raise":
            after.extend(_handle(E, node, s))
        elif s.status is None and node.orelse:
            after.extend(exec_block(E, node.orelse, s))
        else:
            after.append(s)
    if node.finalbody:
        outs = []
        for s in after:
            pending = s.status
            s.status = None
            for f in exec_block(E, node.finalbody, s):
                if f.status is None:
                    f.status = pending
                outs.append(f)
        after = outs
    yield from after


def _handle(E, node, st):
    exc = st.status[1]
    cur = st
    for h in node.handlers:
        if h.type is None:
            classes = [BaseException]
        else:
            cur.status = None
            tv = E.ev1p(h.type, cur)
            cur.status = ("raise", exc)
            classes = [x.obj for x in tv.items] if isinstance(tv, STuple) else [tv.obj]
        cond = z3.Or([E.exc_sub(E.exc_cls(exc.t), z3.IntVal(E.exc_id(c))) for c in classes])
        cur.status = None
        brs = E.branch(cur, cond)
        nxt = None
        for br, s in brs:
            if br:
                if h.name:
                    s.env[h.name] = exc
                s.env["__cur_exc__"] = exc
                for o in exec_block(E, h.body, s):
                    yield o
            else:
                s.status = ("raise", exc)
                nxt = s
        if nxt is None:
            return
        cur = nxt
    cur.status = ("raise", exc)
    yield cur


def x_Match(E, node, st):
    for s, subj in E.ev(node.subject, st):
        cur = s
        for case in node.cases:
            cond = _pattern(E, case.pattern, subj, cur)
            if case.guard is not None:
                raise OutsideSubset("match guard")
            nxt = None
            for br, s2 in E.branch(cur, cond):
                if br:
                    yield from exec_block(E, case.body, s2)
                else:
                    nxt = s2
            if nxt is None:
                break
            cur = nxt
        else:
            yield cur


def _pattern(E, pat, subj, st):
    from .builtins_ import isinstance_
    if isinstance(pat, ast.MatchAs) and pat.pattern is None:
        if pat.name is not None:
            st.env[pat.name] = subj
        return z3.BoolVal(True)
    if isinstance(pat, ast.MatchClass):
        if pat.patterns or pat.kwd_patterns:
            raise OutsideSubset("class pattern with sub-patterns")
        cls = E.ev1p(pat.cls, st)
        return isinstance_(E, subj, cls.obj, st)
    if isinstance(pat, ast.MatchValue):
        v = E.ev1p(pat.value, st)
        return E.eq(subj, v, st)
    if isinstance(pat, ast.MatchOr):
        return z3.Or([_pattern(E, p, subj, st) for p in pat.patterns])
    raise OutsideSubset(f"match pattern {type(pat).__name__}")


# ---- loops -----------------------------------------------------------------------------------------
def _loop_ordinal(E, node, st):
    fdef = st.env.get("__fdef__")
    if fdef is None:
        return None
    # `for` loops are numbered 0, 1, ... in source order; `while` loops separately as "w0", "w1", ... (so that adding one
    # kind of loop does not renumber the invariants of the other)
    k = 0
    for n in ast.walk(fdef.obj):
        if isinstance(n, type(node)):
            if n is node:
                return k if isinstance(node, ast.For) else f"w{k}"
            k += 1
    return None


def _assigned_names(stmts, strict=False):
    """names (re)bound in stmts; unless strict, also the roots of in-place mutations (x.append(..), x[k] = .., x.f = ..)"""
    out = set()
    for s in stmts:
        for n in ast.walk(s):
            if isinstance(n, ast.Name) and isinstance(n.ctx, (ast.Store, ast.Del)):
                out.add(n.id)
            elif strict:
                continue
            elif isinstance(n, ast.Call) and isinstance(n.func, ast.Attribute) and n.func.attr in MUTATORS:
                r = n.func.value
                while isinstance(r, (ast.Attribute, ast.Subscript, ast.Call)):
                    r = r.func if isinstance(r, ast.Call) else r.value
                if isinstance(r, ast.Name):
                    out.add(r.id)
            elif isinstance(n, (ast.Subscript, ast.Attribute)) and isinstance(n.ctx, (ast.Store, ast.Del)):
                r = n.value
                while isinstance(r, (ast.Attribute, ast.Subscript)):
                    r = r.value
                if isinstance(r, ast.Name):
                    out.add(r.id)
            elif isinstance(n, ast.AugAssign):
                r = n.target
                while isinstance(r, (ast.Attribute, ast.Subscript)):
                    r = r.value
                if isinstance(r, ast.Name):
                    out.add(r.id)
    return out


def x_For(E, node, st):
    from .builtins_ import seq_of
    from .comp import bind_target, binder
    fname = st.env["__fname__"].obj if "__fname__" in st.env else E.cur
    contract = E.reg.contracts.get(fname)
    ordinal = _loop_ordinal(E, node, st)
    invs = (contract.invariants.get(ordinal, []) if contract else [])
    for s0, itv in E.ev(node.iter, st):
        b = binder(E, itv, s0)
        if b[0] == "unroll":
            # literal iterable: unroll
            cur = [s0]
            done = []
            for v in b[1]:
                nxt = []
                for s in cur:
                    outs = []
                    for s2 in assign_target(E, node.target, v, s):
                        outs.extend(exec_block(E, node.body, s2))
                    for o in outs:
                        if o.status is None or o.status == ("continue",):
                            o.status = None
                            nxt.append(o)
                        elif o.status == ("break",):
                            o.status = None
                            done.append(("break", o))
                        else:
                            done.append(("x", o))
                cur = nxt
            for s in cur:
                if node.orelse:
                    yield from exec_block(E, node.orelse, s)
                else:
                    yield s
            for _, s in done:
                yield s
            continue
        _, bs, guard, ev, idx, n = b
        seqval = itv if isinstance(itv, SVal) and isinstance(itv.ty, TList) else None
        if idx is None or n is None:
            # unordered iterable (set / dict view): iterate ONE arbitrary enumeration (also visible to invariants as `seq`)
            seqval = seq_of(E, itv if not isinstance(itv, IterView) else _view_seq(E, itv, s0), s0)
            b = binder(E, seqval, s0)
            _, bs, guard, ev, idx, n = b
        elif seqval is None:
            try:
                seqval = seq_of(E, itv, s0)
                if isinstance(itv, IterView) and itv.kind not in ("enumerate", "range", "zip", "items"):
                    b = binder(E, seqval, s0)
                    _, bs, guard, ev, idx, n = b
            except OutsideSubset:
                seqval = None
        yield from _sym_for(E, node, s0, bs, guard, ev, idx, n, invs, fname, ordinal, seqval)


def _view_seq(E, view, st):
    if view.kind == "items":
        raise OutsideSubset("for over dict.items() (use invariants over keys)")
    raise OutsideSubset(f"for over {view.kind}")


def _sym_for(E, node, st, bs, guard, ev, idx, n, invs, fname, ordinal, itv=None):
    """loop over a symbolic-length sequence with an inductive invariant (default: True, i.e. havoc of the loop targets)"""
    from .comp import bind_target
    i = bs[0]
    lineno = node.lineno
    # --- discovery run: which variables / heap fields / ghosts does one iteration change, and with which types?
    mods, heap_mods, ghost_mods, tainted, heap_objs = _discover(E, node, st, i, guard, ev)
    kname = "k"

    def inv_goal(s, kval):
        if not invs:
            return []
        frame = {kname: SVal(kval, INT)}
        if isinstance(itv, SVal):
            frame["seq"] = itv
        out = []
        for j, e in enumerate(invs):
            out.append((j, eval_spec(E, e, s, frame, old=s.old)))
        return out

    # --- init
    for j, g in inv_goal(st, z3.IntVal(0)):
        E.oblige(st, f"loop{ordinal}:inv-init#{j}", g, lineno=lineno, func=fname)
    # --- arbitrary iteration
    def havoc(s, tag):
        for name, ty in mods.items():
            if ty is None:
                s.env.pop(name, None)
                continue
            old = s.env.get(name)
            nv = E.fresh(ty, f"{tag}_{name}")
            s.env[name] = SVal(nv.t, nv.ty, old.origin if isinstance(old, SVal) else None)
        for key in heap_mods:
            if key in s.heap:
                objs = heap_objs.get(key)
                if objs is not None:
                    # the loop writes this field only at these (loop-independent) objects: everything else is framed
                    arr = s.heap[key]
                    for o in objs:
                        fv = z3.Const(E.fresh_name(f"{tag}_{key[0]}"), arr.range())
                        _wf_value(E, key, fv)
                        arr = z3.Store(arr, o, fv)
                    s.heap[key] = arr
                    continue
                s.heap[key] = z3.Const(E.fresh_name(f"H{tag}_{key[0]}"), s.heap[key].sort())
                from .calls import _wf_heap_key
                _wf_heap_key(E, s, key)
        for g in ghost_mods:
            s.ghost[g] = E.fresh(s.ghost[g].ty, f"{tag}_ghost_{g}")
        if tainted:
            havoc_all(E, s)
            s.tainted.extend(tainted)

    body_st = st.copy()
    havoc(body_st, "it")
    k = z3.Int(E.fresh_name("k"))
    nn = n if (z3.is_app(n) and n.decl().name().startswith("len!")) else z3.If(n < 0, 0, n)
    body_st.assume(z3.And(0 <= k, k < nn))
    for j, g in inv_goal(body_st, k):
        body_st.assume(g)
    # bind the loop target to the k-th element
    lo_shift = z3.simplify(i - idx)
    elem = _subst_val(ev, i, k if (z3.is_int_value(lo_shift) and lo_shift.as_long() == 0) else k + lo_shift)
    outs = []
    for s2 in assign_target(E, node.target, elem, body_st):
        outs.extend(exec_block(E, node.body, s2))
    exits = []
    for o in outs:
        if o.status is None or o.status == ("continue",):
            o.status = None
            for j, g in inv_goal(o, k + 1):
                E.oblige(o, f"loop{ordinal}:inv-step#{j}", g, lineno=lineno, func=fname)
        elif o.status == ("break",):
            o.status = None
            o.note(f"loop at line {lineno}: break at iteration k")
            exits.append(o)
        else:
            exits.append(o)
    # --- after the loop (normal exhaustion)
    post = st.copy()
    havoc(post, "after")
    for j, g in inv_goal(post, nn):
        post.assume(g)
    post.note(f"loop at line {lineno}: exhausted")
    if node.orelse:
        exits.extend(exec_block(E, node.orelse, post))
    else:
        exits.append(post)
    yield from exits


def _subst_val(v, i, t):
    if isinstance(v, STuple):
        return STuple([_subst_val(x, i, t) for x in v.items])
    if isinstance(v, SVal) and v.t is not None:
        return SVal(z3.substitute(v.t, (i, t)), v.ty)
    return v


def _discover(E, node, st, i, guard, ev):
    """run the body once with obligations suppressed to learn what it may modify"""
    from .comp import bind_target
    s = st.copy()
    is_while = isinstance(node, ast.While)
    if not is_while:
        s.assume(guard)
    E.suppress += 1
    saved_sink = E.sink
    E.sink = []
    saved_paths = E.paths
    tgt = [] if is_while else [ast.Assign(targets=[node.target], value=ast.Constant(0), lineno=0)]
    extra = [ast.Expr(value=node.test)] if is_while else []
    names = _assigned_names(node.body + extra) | _assigned_names(tgt)
    rebound = _assigned_names(node.body + extra, strict=True) | _assigned_names(tgt, strict=True)
    # a name that is only the root of an in-place mutation is havoced only if it holds a container VALUE (objects are
    # references: their fields live in the heap, which is havoced separately)
    names = {n for n in names if n in rebound or not (isinstance(st.env.get(n), SVal) and not _container(st.env[n].ty))}
    mods, heap_mods, ghost_mods, tainted = {}, set(), set(), []
    heap_objs = {}
    try:
        # two rounds so that types of values that only appear after the first iteration are seen
        cur = [s]
        for rnd in range(2):
            outs = []
            for c in cur:
                c.status = None
                if is_while:
                    for s1, cv in E.ev(node.test, c.copy()):
                        for br, s2 in E.branch(s1, E.truthy(cv, s1)):
                            if br:
                                outs.extend(exec_block(E, node.body, s2))
                            else:
                                outs.append(s2)
                    continue
                for s2 in assign_target(E, node.target, ev, c.copy()):
                    outs.extend(exec_block(E, node.body, s2))
            outs += E.sink
            E.sink = []
            for o in outs:
                for name in names:
                    v = o.env.get(name)
                    if isinstance(v, SVal) and v.t is not None:
                        mods[name] = v.ty
                    elif isinstance(v, SVal):
                        mods.setdefault(name, NONE)
                    elif name not in mods and v is None and name in st.env:
                        mods[name] = None
                    elif isinstance(v, (Empty, STuple)) and name not in mods:
                        pass
                for key, arr in o.heap.items():
                    if key not in st.heap or st.heap[key] is not arr:
                        heap_mods.add(key)
                        objs = _store_chain(arr, st.heap.get(key), [i] if i is not None else [])
                        if objs is None:
                            heap_objs[key] = None
                        elif heap_objs.get(key, []) is not None:
                            cur_objs = heap_objs.setdefault(key, [])
                            for ob in objs:
                                if not any(ob.eq(x) for x in cur_objs):
                                    cur_objs.append(ob)
                for g, v in o.ghost.items():
                    if st.ghost.get(g) is None or st.ghost[g].t is not v.t:
                        ghost_mods.add(g)
                for t in o.tainted:
                    if t not in st.tainted and t not in tainted:
                        tainted.append(t)
            cur = [o for o in outs if o.status in (None, ("continue",))][:4]
            if not cur:
                break
    finally:
        E.suppress -= 1
        E.sink = saved_sink
        E.paths = saved_paths
    # heap arrays first touched inside the loop must exist before the havoc
    for key in heap_mods:
        if key not in st.heap:
            field, tk = key
            # recreate through the typed accessor
            for rec in E.U.records.values():
                ty = E.U.field_ty(rec.qualname, field)
                if ty is not None and ty.key == tk:
                    E.heap_arr(st, field, ty)
                    break
    # names bound before the loop but never typed inside: keep; names only Empty inside: leave
    for name in list(mods):
        if mods[name] is NONE:
            del mods[name]
    # loop target variables get fresh values anyway; an accumulator initialised to an untyped [] gets its discovered type
    return mods, heap_mods, ghost_mods, tainted, heap_objs


def _store_chain(arr, base, loop_vars):
    """arr == Store(...Store(base, o1, v1)..., on, vn) -> [o1..on] when no oi mentions a loop variable; else None"""
    from .values import _mentions
    objs = []
    cur = arr
    for _ in range(64):
        if base is not None and (cur is base or cur.eq(base)):
            return objs
        if z3.is_store(cur):
            o = cur.arg(1)
            if _mentions(o, loop_vars):
                return None
            objs.append(o)
            cur = cur.arg(0)
            continue
        if base is None and z3.is_const(cur) and cur.decl().name().startswith("H0_"):
            return objs
        return None
    return None


def _wf_value(E, key, v):
    field, tk = key
    for rec in E.U.records.values():
        ty = E.U.field_ty(rec.qualname, field)
        if ty is not None and ty.key == tk:
            for part, store in (("len", E.axioms), ("cells", E.wf_axioms)):
                w = E.wf(v, ty, part)
                if w is not None:
                    store.append(w)
            return


def x_While(E, node, st):
    """`while test: body` with an inductive invariant from the contract (default: True, i.e. havoc of everything one
    iteration can change, learnt by a suppressed discovery run).  PARTIAL correctness: termination is not an obligation."""
    fname = st.env["__fname__"].obj if "__fname__" in st.env else E.cur
    contract = E.reg.contracts.get(fname)
    ordinal = _loop_ordinal(E, node, st)
    invs = (contract.invariants.get(ordinal, []) if contract else [])
    lineno = node.lineno
    E.assumptions.add("while loops: partial correctness (termination is not an obligation)")
    mods, heap_mods, ghost_mods, tainted, heap_objs = _discover(E, node, st, None, None, None)

    def inv_goal(s):
        return [(j, eval_spec(E, e, s, {}, old=s.old)) for j, e in enumerate(invs)]

    for j, g in inv_goal(st):
        E.oblige(st, f"loop{ordinal}:inv-init#{j}", g, lineno=lineno, func=fname)
    exits = []
    for tag in ("it", "after"):
        s0 = st.copy()
        _havoc_loop(E, s0, tag, mods, heap_mods, ghost_mods, tainted, heap_objs)
        for j, g in inv_goal(s0):
            s0.assume(g)
        for s1, c in E.ev(node.test, s0):
            for br, s2 in E.branch(s1, E.truthy(c, s1)):
                narrow(E, node.test, br, s2)
                if tag == "it" and br:
                    for o in exec_block(E, node.body, s2):
                        if o.status is None or o.status == ("continue",):
                            o.status = None
                            for j, g in inv_goal(o):
                                E.oblige(o, f"loop{ordinal}:inv-step#{j}", g, lineno=lineno, func=fname)
                        elif o.status == ("break",):
                            o.status = None
                            o.note(f"while loop at line {lineno}: break")
                            exits.append(o)
                        else:
                            exits.append(o)
                elif tag == "after" and not br:
                    s2.note(f"while loop at line {lineno}: condition false")
                    if node.orelse:
                        exits.extend(exec_block(E, node.orelse, s2))
                    else:
                        exits.append(s2)
    yield from exits


def _havoc_loop(E, s, tag, mods, heap_mods, ghost_mods, tainted, heap_objs):
    for name, ty in mods.items():
        if ty is None:
            s.env.pop(name, None)
            continue
        old = s.env.get(name)
        nv = E.fresh(ty, f"{tag}_{name}")
        s.env[name] = SVal(nv.t, nv.ty, old.origin if isinstance(old, SVal) else None)
    for key in heap_mods:
        if key in s.heap:
            objs = heap_objs.get(key)
            if objs is not None:
                arr = s.heap[key]
                for o in objs:
                    fv = z3.Const(E.fresh_name(f"{tag}_{key[0]}"), arr.range())
                    _wf_value(E, key, fv)
                    arr = z3.Store(arr, o, fv)
                s.heap[key] = arr
                continue
            s.heap[key] = z3.Const(E.fresh_name(f"H{tag}_{key[0]}"), s.heap[key].sort())
            from .calls import _wf_heap_key
            _wf_heap_key(E, s, key)
    for g in ghost_mods:
        s.ghost[g] = E.fresh(s.ghost[g].ty, f"{tag}_ghost_{g}")
    if tainted:
        havoc_all(E, s)
        s.tainted.extend(tainted)


def x_FunctionDef(E, node, st):
    raise OutsideSubset("nested function definition")


def x_Global(E, node, st):
    raise OutsideSubset("global statement")
