"""Python lists as (length, Array Int -> T) datatypes in canonical form (cells outside [0, len) hold a fixed default), so
that datatype equality is list equality and quantified obligations stay in the array fragment (z3's Seq theory answers
`unknown` on quantified nth/len obligations that the array encoding discharges in milliseconds)."""
from __future__ import annotations

import z3

_DTS = {}      # elem sort name -> datatype
_BY_SORT = {}  # list sort name -> (datatype, elem sort)


def list_sort(elem_sort):
    k = str(elem_sort)
    if k not in _DTS:
        name = "L_" + "".join(c if c.isalnum() else "_" for c in k)
        dt = z3.Datatype(name)
        dt.declare("mkl!" + name, ("len!" + name, z3.IntSort()), ("arr!" + name, z3.ArraySort(z3.IntSort(), elem_sort)))
        dt = dt.create()
        dt.mkl, dt.len, dt.arr = dt.constructor(0), dt.accessor(0, 0), dt.accessor(0, 1)
        _DTS[k] = dt
        _BY_SORT[str(dt)] = (dt, elem_sort)
    return _DTS[k]


def is_list_sort(s):
    return str(s) in _BY_SORT


def _info(t):
    return _BY_SORT[str(t.sort())]


def dflt(elem_sort):
    return z3.Const("dflt!" + "".join(c if c.isalnum() else "_" for c in str(elem_sort)), elem_sort)


def is_str(t):
    return t.sort() == z3.StringSort()


def Length(t):
    if is_str(t):
        return z3.Length(t)
    dt, _ = _info(t)
    return dt.len(t)


def Arr(t):
    dt, _ = _info(t)
    return dt.arr(t)


def At(t, i):
    return z3.Select(Arr(t), i)


def Empty(list_srt):
    dt, es = _BY_SORT[str(list_srt)]
    return dt.mkl(z3.IntVal(0), z3.K(z3.IntSort(), dflt(es)))


def EmptyOf(elem_sort):
    dt = list_sort(elem_sort)
    return dt.mkl(z3.IntVal(0), z3.K(z3.IntSort(), dflt(elem_sort)))


def Unit(x):
    dt = list_sort(x.sort())
    return dt.mkl(z3.IntVal(1), z3.Store(z3.K(z3.IntSort(), dflt(x.sort())), 0, x))


def Snoc(a, x):
    dt, _ = _info(a)
    return dt.mkl(dt.len(a) + 1, z3.Store(dt.arr(a), dt.len(a), x))


def _is_unit(t):
    """mkl(1, Store(K(d), 0, x)) -> x"""
    if z3.is_app(t) and t.decl().name().startswith("mkl!"):
        ln, arr = t.arg(0), t.arg(1)
        if z3.is_int_value(ln) and ln.as_long() == 1 and z3.is_store(arr) and z3.is_int_value(arr.arg(1)) and arr.arg(1).as_long() == 0 \
                and z3.is_const_array(arr.arg(0)):
            return arr.arg(2)
    return None


def _is_empty(t):
    return z3.is_app(t) and t.decl().name().startswith("mkl!") and z3.is_int_value(t.arg(0)) and t.arg(0).as_long() == 0


_lam = [0]


def Concat(*parts):
    if is_str(parts[0]):
        return z3.Concat(*parts)
    res = parts[0]
    for b in parts[1:]:
        res = _concat2(res, b)
    return res


AXIOMS = []          # global (sort-level) list axioms, picked up by the engine
_CONCAT = {}


def concat_fn(list_srt):
    """Dafny-style append: uninterpreted function with trigger-driven axioms (membership in a ++ b needs the instance
    At(a ++ b, len a + i) == At(b, i), which e-matching cannot invent from a lambda)"""
    k = str(list_srt)
    if k in _CONCAT:
        return _CONCAT[k]
    dt, es = _BY_SORT[k]
    f = z3.Function("concat!" + k, list_srt, list_srt, list_srt)
    _CONCAT[k] = f
    a, b = z3.Const("a!cc", list_srt), z3.Const("b!cc", list_srt)
    i = z3.Int("i!cc")
    c = f(a, b)
    la, lb = dt.len(a), dt.len(b)
    at = lambda t, j: z3.Select(dt.arr(t), j)
    ok = z3.And(la >= 0, lb >= 0)
    AXIOMS.append(z3.ForAll([a, b], z3.Implies(ok, dt.len(c) == la + lb), patterns=[c]))
    AXIOMS.append(z3.ForAll([a, b, i], z3.Implies(ok, at(c, i) == z3.If(i < 0, dflt(es), z3.If(i < la, at(a, i), z3.If(i < la + lb, at(b, i - la), dflt(es))))),
                            patterns=[at(c, i)]))
    AXIOMS.append(z3.ForAll([a, b, i], z3.Implies(z3.And(ok, 0 <= i, i < lb), at(c, la + i) == at(b, i)),
                            patterns=[z3.MultiPattern(c, at(b, i))]))
    AXIOMS.append(z3.ForAll([a, b, i], z3.Implies(z3.And(ok, 0 <= i, i < la), at(c, i) == at(a, i)),
                            patterns=[z3.MultiPattern(c, at(a, i))]))
    return f


def _concat2(a, b):
    if _is_empty(b):
        return a
    if _is_empty(a):
        return b
    x = _is_unit(b)
    if x is not None:
        return Snoc(a, x)
    return concat_fn(a.sort())(a, b)


def Extract(t, off, ln):
    """sub-list of length max(ln,0) starting at off; callers pass clamped 0 <= off, off+ln <= len"""
    if is_str(t):
        return z3.Extract(t, off, ln)
    dt, es = _info(t)
    _lam[0] += 1
    i = z3.Int(f"i!ext{_lam[0]}")
    if isinstance(off, int):
        off = z3.IntVal(off)
    if isinstance(ln, int):
        ln = z3.IntVal(ln)
    n = z3.If(ln < 0, 0, ln)
    off_s = z3.simplify(off)
    if z3.is_int_value(off_s) and off_s.as_long() == 0:
        body = z3.If(z3.And(0 <= i, i < n), z3.Select(dt.arr(t), i), dflt(es))
    else:
        body = z3.If(z3.And(0 <= i, i < n), z3.Select(dt.arr(t), i + off), dflt(es))
    return dt.mkl(z3.simplify(n), z3.Lambda([i], body))


def Member(t, x, fresh_name):
    i = z3.Int(fresh_name)
    if _is_empty(t):
        return z3.BoolVal(False)
    return z3.Exists([i], z3.And(0 <= i, i < Length(t), At(t, i) == x))


def Canonical(t):
    """len >= 0 and every cell outside [0,len) holds the default"""
    dt, es = _info(t)
    _lam[0] += 1
    i = z3.Int(f"i!can{_lam[0]}")
    body = z3.Implies(z3.Or(i < 0, i >= dt.len(t)), z3.Select(dt.arr(t), i) == dflt(es))
    if pattern_ok(t):
        q = z3.ForAll([i], body, patterns=[z3.Select(dt.arr(t), i)])
    else:
        q = z3.ForAll([i], body)
    return z3.And(dt.len(t) >= 0, q)


_CANON = {}


def canon_fn(list_srt):
    k = str(list_srt)
    if k not in _CANON:
        _CANON[k] = z3.Function("is_canon!" + k, list_srt, z3.BoolSort())
    return _CANON[k]


def NonNegLen(t):
    dt, es = _info(t)
    return dt.len(t) >= 0


def CellsCanonical(t):
    dt, es = _info(t)
    i = z3.Int("i!can")
    body = z3.Implies(z3.Or(i < 0, i >= dt.len(t)), z3.Select(dt.arr(t), i) == dflt(es))
    if pattern_ok(t):
        return z3.ForAll([i], body, patterns=[z3.Select(dt.arr(t), i)])
    return z3.ForAll([i], body)


def pattern_ok(t):
    """z3 patterns may not contain boolean connectives / ite / interpreted arithmetic"""
    todo = [t]
    seen = 0
    while todo:
        x = todo.pop()
        seen += 1
        if seen > 400:
            return False
        if z3.is_quantifier(x) or z3.is_var(x):
            if z3.is_quantifier(x):
                return False
            continue
        if z3.is_app(x):
            k = x.decl().kind()
            if k in (z3.Z3_OP_ITE, z3.Z3_OP_AND, z3.Z3_OP_OR, z3.Z3_OP_NOT, z3.Z3_OP_IMPLIES, z3.Z3_OP_EQ, z3.Z3_OP_LE,
                     z3.Z3_OP_GE, z3.Z3_OP_LT, z3.Z3_OP_GT, z3.Z3_OP_DISTINCT, z3.Z3_OP_IFF, z3.Z3_OP_XOR):
                return False
            todo.extend(x.children())
    return True


def Update(t, i, v):
    """t with cell i replaced (0 <= i < len assumed by the caller)"""
    dt, _ = _info(t)
    return dt.mkl(dt.len(t), z3.Store(dt.arr(t), i, v))
