"""Native counterexample search: the refuter for obligations the solver leaves `unknown`.

An invalid quantified VC comes back `unknown`, not `sat` (z3 cannot build a model of the quantified hypotheses).  For a
post-condition or exception obligation of the function under verification this module then looks for a *real* failing
input: type-directed small inputs are generated from the contract's parameter types and the record declarations, the
REAL function is run on them under /repo's current source, and the contract clause - Python text - is evaluated natively
on the real result.  A clause that evaluates to False is a genuine violation with a concrete witness (it is re-executed
before being reported).  Nothing found means the obligation stays undecided: this search never proves anything and is
never counted as a discharged obligation.
"""
from __future__ import annotations

import ast
import copy
import random
import traceback
from pathlib import Path

from . import locate
from .ty import *      # noqa

STR_POOL = ["b", "shell", "timeout", "", "a.py", "b/a.py", "a.py:3", "*a.py:3", "*.py", "b/**", "a.py:1", "x", ":", "3", "r1", "r2", "open", "*a.py:1",
            "a.py:2", "/pyvc-none/t/a.py:3", "/pyvc-none/t/b/a.py:1", "b/a.py:1", "x = 1\n", "x = 1\r\n", "x = 1\r", "open(x)\n", " x \t\n"]
PATH_POOL = [Path("/pyvc-none/t/a.py"), Path("/pyvc-none/t/b/a.py"), Path("/pyvc-none/t"), Path("a.py"), Path("b/a.py"), Path("/pyvc-none/t/c.py")]
KEY_POOL = [Path("a.py"), Path("b/a.py"), Path("/pyvc-none/t/a.py"), Path("/pyvc-none/t/b/a.py")]     # relative + absolute, one a suffix of another
INT_POOL = [1, 2, 3, 1, 2, 3, 0, 1, 2, 4, -1]


import os
DEBUG = bool(os.environ.get("PYVC_SEARCH_DEBUG"))


class Skip(Exception):
    pass


class Gen:
    def __init__(self, E, rng):
        self.E, self.rng = E, rng
        self.pool = {}       # class qualname -> generated instances (for ANY('Cls') domains and sharing)
        self.opaques = []    # every opaque value handed out (domain of ANY('Opaque'))

    def value(self, ty, hint="", depth=0):
        r = self.rng
        if ty is NONE:
            return None
        if ty is INT:
            # a tiny dominant domain makes coincidences (equal lines / columns / keys) likely
            return r.choice([1, 2]) if r.random() < 0.7 else r.choice(INT_POOL)
        if ty is BOOL:
            return r.random() < 0.5
        if ty is STR:
            # coincidence bias: half of the strings repeat one already used in this input (dict keys, rule ids, patterns then meet)
            seen = self.__dict__.setdefault("strs", [])
            v = r.choice(seen) if seen and r.random() < 0.5 else r.choice(STR_POOL)
            seen.append(v)
            return v
        if ty is BYTES:
            return r.choice([b"", b"x = 1\n", b"\xff"])
        if isinstance(ty, TOpt):
            return None if r.random() < 0.25 else self.value(ty.inner, hint, depth)
        if isinstance(ty, TList):
            n = r.choice([0, 1, 1, 2, 2, 3]) if depth < 6 else 0
            return [self.value(ty.elem, hint, depth + 1) for _ in range(n)]
        if isinstance(ty, TSet):
            try:
                return set(self.value(TList(ty.elem), hint, depth))
            except TypeError:
                return set()
        if isinstance(ty, TDict):
            n = r.choice([0, 1, 2])
            out = {}
            for _ in range(n):
                try:
                    out[self.value(ty.k, "", depth + 1)] = self.value(ty.v, hint, depth + 1)
                except TypeError:
                    pass
            tag = getattr(ty, "cls", None)
            if tag:
                k = locate.resolve(tag)[0]
                try:
                    d = k()
                    d.update(out)
                    return d
                except Exception:
                    return out
            return out
        if isinstance(ty, TTuple):
            return tuple(self.value(e, hint, depth + 1) for e in ty.elems)
        if isinstance(ty, (TVal, TRef)):
            return self.record(ty, depth)
        if ty is OPAQUE:
            h = hint.lower()
            if "director" in h and r.random() < 0.7:
                v = PATH_POOL[2]                 # the common parent of the path pool: `file.relative_to(directory)` is then defined
            elif any(w in h for w in ("path", "file", "director")):
                v = r.choice(PATH_POOL)
            elif "node" in h:
                v = _node(r)
            elif hint == "":
                v = r.choice(KEY_POOL)           # anonymous opaque (dict keys ...): a tiny shared domain so that keys collide
            else:
                v = _Token(hint or "opaque", r.randrange(3))
            self.opaques.append(v)
            return v
        raise Skip(f"no generator for {ty}")

    def record(self, ty, depth):
        E, r = self.E, self.rng
        rec = E.U.record_of(ty.cls)
        if rec is None or rec.pyclass is None:
            raise Skip(f"no class for {ty.cls}")
        insts = self.pool.setdefault(rec.qualname, [])
        if insts and (depth > 6 or r.random() < 0.3):
            return r.choice(insts)
        cls = _instantiable(rec.pyclass)
        # dynamic dispatch: a declared class stands for its live subclasses too (their overriding methods are what really runs)
        subs = _live_subclasses(rec.pyclass)
        if subs and r.random() < 0.5:
            cls = r.choice(subs)
        try:
            import pydantic
            is_model = issubclass(cls, pydantic.BaseModel)
        except Exception:
            is_model = False
        if issubclass(cls, tuple):
            vals = {f: self.value(fty, f, depth + 1) for f, fty in E.U.all_fields(ty.cls).items()}
            obj = cls(**vals)
            insts.append(obj)
            return obj
        if is_model:
            vals = {}
            for f, fty in E.U.all_fields(ty.cls).items():
                try:
                    vals[f] = self.value(fty, f, depth + 1)
                except Skip:
                    vals[f] = None
            obj = cls.model_construct(**vals)
            insts.append(obj)
            return obj
        obj = object.__new__(cls)
        insts.append(obj)
        for f, fty in E.U.all_fields(ty.cls).items():
            try:
                v = self.value(fty, f, depth + 1)
            except Skip:
                v = None
            try:
                object.__setattr__(obj, f, v)
            except Exception:
                pass
        return obj


_SUBS = {}
_LOADED = [False]


def _live_subclasses(base):
    """concrete subclasses of `base` defined in the two packages (every plugin module is imported once, through the registry)"""
    if base in _SUBS:
        return _SUBS[base]
    if not _LOADED[0]:
        _LOADED[0] = True
        try:
            from codemodder.registry import load_registered_codemods
            load_registered_codemods()
        except Exception:      # noqa
            pass
    out, todo, seen = [], list(base.__subclasses__()), set()
    while todo:
        k = todo.pop()
        if k in seen:
            continue
        seen.add(k)
        todo.extend(k.__subclasses__())
        if getattr(k, "__module__", "").startswith(("codemodder", "core_codemods")) and not getattr(k, "__abstractmethods__", None) \
                and "test" not in k.__module__:
            out.append(k)
    out.sort(key=lambda k: (k.__module__, k.__qualname__))
    _SUBS[base] = out
    return out


class _Token:
    def __init__(self, name, i):
        self.name, self.i = name, i

    def __repr__(self):
        return f"<{self.name}#{self.i}>"

    def __eq__(self, o):
        return isinstance(o, _Token) and (self.name, self.i) == (o.name, o.i)

    def __hash__(self):
        return hash((self.name, self.i))


_NODES = []


def _node(r):
    import libcst as cst
    if not _NODES:
        _NODES.extend([cst.Name("x"), cst.Tuple(elements=[]), cst.Call(func=cst.Name("f"))])
        for src in ("f(a, b=1)", "f(a, shell=True, **opts)", "f(*rest, timeout=3, b=2)", "g(x, y, z)", "f(b=1, **kw)", "f(**kw)"):
            _NODES.append(cst.parse_expression(src))
    return r.choice(_NODES)


_SUB = {}


def _instantiable(cls):
    """abstract classes get a trivial concrete subclass (abstract methods return None)"""
    key = cls
    if key in _SUB:
        return _SUB[key]
    need = bool(getattr(cls, "__abstractmethods__", None))
    try:
        from codemodder.utils.abc_dataclass import ABCDataclass
        if issubclass(cls, ABCDataclass) and cls.__bases__[0] is ABCDataclass:
            need = True
    except Exception:
        pass
    if need:
        ns = {m: (lambda self, *a, **k: None) for m in getattr(cls, "__abstractmethods__", ())}
        try:
            sub = type("Search" + cls.__name__, (cls,), ns)
        except TypeError:
            sub = cls
        _SUB[key] = sub
    else:
        _SUB[key] = cls
    return _SUB[key]


# -------------------------------------------------------------------------------------------------
def _spec_env(E, gen, reg):
    def implies(a, b):
        return (not a) or bool(b)

    def iff(a, b):
        return bool(a) == bool(b)

    def ANY(t):
        ty = E.U.parse(t)
        if ty is INT:
            return list(range(-1, 7))
        if ty is STR:
            return list(STR_POOL)
        if ty is BOOL:
            return [False, True]
        if isinstance(ty, (TRef, TVal)):
            rec = E.U.record_of(ty.cls)
            out = []
            for q, insts in gen.pool.items():
                r2 = E.U.record_of(q)
                if r2 is not None and E.U.is_subclass(q, rec.qualname):
                    out.extend(insts)
            return out
        if ty is OPAQUE:
            out = list(PATH_POOL)
            for v in gen.opaques:
                try:
                    if v not in out:
                        out.append(v)
                except Exception:
                    pass
            return out
        raise Skip(f"ANY({t})")

    def lookup(d, k, default):
        return default if d is None else d.get(k, default)

    def typed_empty(t):
        ty = E.U.parse(t)
        return [] if isinstance(ty, TList) else ({} if isinstance(ty, TDict) else set())

    def ite(c, a, b):
        return a if c else b

    def distinct(xs):
        xs = list(xs)
        return all(xs[i] != xs[j] for i in range(len(xs)) for j in range(i + 1, len(xs)))

    env = {"implies": implies, "iff": iff, "ANY": ANY, "lookup": lookup, "typed_empty": typed_empty, "ite": ite,
           "distinct": distinct, "none": lambda: None, "dom": lambda d: set(d.keys()), "subset": lambda a, b: set(a) <= set(b)}
    env.update(getattr(reg, "spec_globals", {}))
    # spec functions are Python text: define them natively (recursion resolves through env)
    for name, sp in reg.specs.items():
        if sp.body:
            src = f"lambda {', '.join(sp.params)}: {sp.body}"
            try:
                env[name] = eval(src, env)
            except Exception:
                pass
    return env


class _OldRewriter(ast.NodeTransformer):
    def __init__(self):
        self.olds = []

    def visit_Call(self, node):
        if isinstance(node.func, ast.Name) and node.func.id == "old" and len(node.args) == 1:
            self.olds.append(node.args[0])
            return ast.Name(id=f"__old_{len(self.olds) - 1}", ctx=ast.Load())
        return self.generic_visit(node)


def _uses_unsupported(clause):
    return any(w in clause for w in ("fs[", "fs ==", "(fs", " fs", "fresh_obj", "raised("))


_STATS = None


def search(E, reg, qualname, contract, targets, seed=0, tries=400, stop_early=True):
    """targets: list of (obligation id, kind, clause text or None) -> {oid: witness dict}"""
    out = {}
    try:
        obj, owner, mod = locate.resolve(qualname)
        fn, fkind, _ = locate.unwrap(obj)
        fdef, _ = locate.find_def(fn)
    except Exception:
        return out
    from .verify import param_types
    ptys = param_types(E, fn, fdef, contract, owner)
    rng = random.Random(seed * 7919 + __import__('zlib').crc32(qualname.encode()) % 1000)
    todo = [(oid, kind, cl) for oid, kind, cl in targets if kind == "raises" or (cl and not _uses_unsupported(cl))]
    if not todo:
        return out
    compiled = {}
    for oid, kind, cl in todo:
        if kind == "raises":
            continue
        rw = _OldRewriter()
        tree = rw.visit(ast.parse(cl, mode="eval"))
        ast.fix_missing_locations(tree)
        compiled[oid] = (compile(tree, "<clause>", "eval"), [compile(ast.fix_missing_locations(ast.Expression(o)), "<old>", "eval") for o in rw.olds])
    reqs = [compile(ast.parse(r, mode="eval"), "<requires>", "eval") for r in contract.requires if not _uses_unsupported(r)]
    g = getattr(fn, "__globals__", {})
    patches = _stub_trusted(E, reg, rng)
    import logging
    import io
    import contextlib
    logging.disable(logging.CRITICAL)
    try:
        with contextlib.redirect_stderr(io.StringIO()), contextlib.redirect_stdout(io.StringIO()):
            _search_loop(E, reg, contract, fn, owner, ptys, rng, todo, compiled, reqs, g, out, tries)
    finally:
        logging.disable(logging.NOTSET)
        for owner_obj, name, orig in patches:
            setattr(owner_obj, name, orig)
    return out


def _stub_trusted(E, reg, rng):
    """trusted pure repo methods that need a heavy environment (libcst metadata): memoised random functions that respect
    the assumed contract's ensures"""
    patches = []
    for qn, c in reg.contracts.items():
        if not (c.trusted and c.pure) or qn.startswith(("dyn:", "opaque.")) or not qn.startswith(("codemodder.", "core_codemods.")):
            continue
        try:
            obj, owner, mod = locate.resolve(qn)
        except Exception:
            continue
        if owner is None:
            continue
        name = qn.split(".")[-1]
        rty = E.U.parse(c.returns) if c.returns else NONE
        pnames = list(c.params or {})
        ens = [compile(ast.parse(e, mode="eval"), "<ensures>", "eval") for _, e in c.ensures]
        memo = {}

        def stub(*a, _memo=memo, _rty=rty, _pn=pnames, _ens=ens):
            key = tuple(_stable_key(x) for x in a)
            if key not in _memo:
                gen = Gen(E, rng)
                for _ in range(50):
                    v = gen.value(_rty, "result")
                    env = dict(zip(_pn, a))
                    env["result"] = v
                    try:
                        if all(eval(e, {"implies": lambda p, q: (not p) or q}, env) for e in _ens):
                            break
                    except Exception:
                        continue
                _memo[key] = v
            return _memo[key]
        patches.append((owner, name, owner.__dict__[name]))
        setattr(owner, name, stub)
    return patches


def _stable_key(x):
    """argument identity for the memoised stubs that survives deepcopy (old(...) snapshots)"""
    try:
        import libcst as cst
        if isinstance(x, cst.CSTNode):
            return ("cst", repr(x))
    except Exception:
        pass
    if isinstance(x, (int, str, bool, float, bytes, type(None), Path)):
        return ("v", type(x).__name__, str(x))
    if isinstance(x, (_Token,)):
        return ("tok", x.name, x.i)
    return ("obj", type(x).__name__)


def _search_loop(E, reg, contract, fn, owner, ptys, rng, todo, compiled, reqs, g, out, tries, stop_early=True):
    for _ in range(tries):
        if stop_early and len(out) == len(todo):
            break
        gen = Gen(E, rng)
        try:
            args = {}
            for n, t in ptys.items():
                if t == "@class":
                    args[n] = owner
                else:
                    args[n] = gen.value(E.U.parse(t), n)
        except Skip:
            return out
        env = dict(g)
        env.update(_spec_env(E, gen, reg))
        env.update(args)
        try:
            if not all(eval(r, env) for r in reqs):
                continue
        except Exception:
            continue
        pre_env = dict(env)
        pre_env.update(copy.deepcopy(args)) if _deepcopy_ok(args) else None
        olds = {}
        for oid, (code, oldcodes) in compiled.items():
            try:
                olds[oid] = [copy.deepcopy(eval(oc, pre_env)) for oc in oldcodes]
            except Exception:
                olds[oid] = None
        shown = {k: _short(v) for k, v in args.items()}
        try:
            result = fn(**args)
            if hasattr(result, "__next__"):
                result = list(result)          # iterators are observed as the list of what they yield
            raised = None
        except Exception as e:      # noqa
            result, raised = None, e
        for oid, kind, cl in todo:
            if oid in out:
                continue
            if kind == "raises":
                if raised is not None and not _declared(E, contract, raised):
                    out[oid] = {"inputs": shown, "observed": f"raised {type(raised).__name__}: {raised}", "clause": "only declared exceptions escape"}
                continue
            if raised is not None or olds.get(oid) is None:
                continue
            code, _ = compiled[oid]
            env2 = dict(env)
            env2["result"] = result
            for i, v in enumerate(olds[oid]):
                env2[f"__old_{i}"] = v
            try:
                ok = eval(code, env2)
            except Exception as e:
                if DEBUG:
                    print("search: clause evaluation failed:", type(e).__name__, e)
                continue
            E.search_evals = getattr(E, "search_evals", {})
            E.search_evals[oid] = E.search_evals.get(oid, 0) + 1
            E.search_variety = getattr(E, "search_variety", {})
            E.search_variety.setdefault(oid, set()).add(_short(result)[:80])
            if _STATS is not None and oid in _STATS:
                _STATS[oid]["evaluations"] += 1
                if result:
                    _STATS[oid]["true_nontrivial"] += 1
            if not ok and oid not in out:
                out[oid] = {"inputs": shown, "observed": f"result = {_short(result)}", "clause": cl}
    return out


def _declared(E, contract, exc):
    if contract.raises_any:
        return True
    for ex in contract.exsures:
        try:
            if isinstance(exc, E.exc_class_by_name(ex[0])):
                return True
        except Exception:
            pass
    return False


def _deepcopy_ok(args):
    try:
        copy.deepcopy(args)
        return True
    except Exception:
        return False


def _short(v):
    try:
        r = repr(v)
    except Exception:
        r = f"<{type(v).__name__}>"
    if "object at 0x" in r and hasattr(v, "__dict__"):
        r = f"{type(v).__name__}({', '.join(f'{k}={_short(x)}' for k, x in list(vars(v).items())[:8])})"
    return r if len(r) < 700 else r[:700] + "..."


def bounded_check(E, reg, qualname, contract, tries=2000, seed=0):
    """BOUNDED stand-in for a function outside the solver's reach: every clause of the contract is evaluated natively on `tries`
    generated inputs of the real function.  Returns per-clause statistics and the first failing input, never a proof."""
    targets = [(f"{qualname}/post#{i}" + (f"[{lab}]" if lab else ""), "post", e) for i, (lab, e) in enumerate(contract.ensures)]
    stats = {oid: {"evaluations": 0, "true_nontrivial": 0} for oid, _, _ in targets}
    found = {}
    global _STATS
    _STATS = stats
    try:
        found = search(E, reg, qualname, contract, targets, seed=seed, tries=tries, stop_early=False)
    finally:
        _STATS = None
    return stats, found


def _declared_name(E, contract, exc_name):
    if contract.raises_any:
        return True
    for ex in contract.exsures:
        try:
            cls = E.exc_class_by_name(ex[0])
        except Exception:      # noqa
            continue
        if exc_name == cls.__name__ or any(k.__name__ == exc_name for k in cls.__subclasses__()):
            return True
    return False


def _canon(x, depth=0, seen=None):
    """structural, identity-free rendering of a value for comparing two executions"""
    seen = seen if seen is not None else set()
    if depth > 6:
        return "..."
    if isinstance(x, (int, float, str, bytes, bool, type(None))):
        return repr(x)
    if id(x) in seen:
        return "<cycle>"
    seen = seen | {id(x)}
    if isinstance(x, (list, tuple)):
        return "[" + ",".join(_canon(i, depth + 1, seen) for i in x) + "]"
    if isinstance(x, (set, frozenset)):
        return "{" + ",".join(sorted(_canon(i, depth + 1, seen) for i in x)) + "}"
    if isinstance(x, dict):
        return "{" + ",".join(sorted(_canon(k, depth + 1, seen) + ":" + _canon(v, depth + 1, seen) for k, v in x.items())) + "}"
    if isinstance(x, BaseException):
        return f"<exc {type(x).__name__}>"
    d = getattr(x, "__dict__", None)
    if d is not None:
        return type(x).__name__ + "(" + ",".join(f"{k}={_canon(v, depth + 1, seen)}" for k, v in sorted(d.items()) if not k.startswith("__")) + ")"
    return type(x).__name__


def differential(E, reg, qualname, contract, seed=0, tries=200):
    """run the baseline version (source kept in contracts/baseline/_sources.json) and the current version of a natively
    executable function on the same generated inputs -> {"runs": n, "difference": None | {...}}; None when there is no baseline
    or the function is unchanged"""
    import json
    import os
    here = os.path.dirname(os.path.dirname(os.path.abspath(__file__)))
    p = os.path.join(here, "contracts", "baseline", "_sources.json")
    if not os.path.exists(p):
        return None
    base = json.load(open(p)).get(qualname)
    if not base:
        return None
    obj, owner, mod = locate.resolve(qualname)
    fn, fkind, _ = locate.unwrap(obj)
    fdef, _ = locate.find_def(fn)
    if locate.ast_hash(fdef) == base.get("hash"):
        return None
    ns = dict(fn.__globals__)
    exec(compile(ast.parse(base["source"]), "<baseline of %s>" % qualname, "exec"), ns)
    old_fn = locate.unwrap(ns[fn.__name__])[0]
    from .verify import param_types
    ptys = param_types(E, fn, fdef, contract, owner)
    rng = random.Random(seed * 104729 + 17)
    reqs = [compile(ast.parse(r, mode="eval"), "<requires>", "eval") for r in contract.requires if not _uses_unsupported(r)]
    patches = _stub_trusted(E, reg, rng)
    import logging
    import io
    import contextlib
    logging.disable(logging.CRITICAL)
    runs, diff = 0, None
    outcomes = set()
    try:
        with contextlib.redirect_stderr(io.StringIO()), contextlib.redirect_stdout(io.StringIO()):
            for _ in range(tries):
                gen = Gen(E, rng)
                try:
                    args = {}
                    for n, t in ptys.items():
                        args[n] = owner if t == "@class" else gen.value(E.U.parse(t), n)
                except Skip:
                    break
                env = dict(fn.__globals__)
                env.update(_spec_env(E, gen, reg))
                env.update(args)
                try:
                    if not all(eval(r, env) for r in reqs):
                        continue
                except Exception:      # noqa
                    continue
                if not _deepcopy_ok(args):
                    continue
                outs = []
                for f in (old_fn, fn):
                    a = copy.deepcopy(args)
                    try:
                        r = f(**a)
                        if hasattr(r, "__next__"):
                            r = list(r)
                        outs.append(("ret", _canon(r), _canon(a)))
                    except Exception as e:      # noqa
                        outs.append(("exc", type(e).__name__, _canon(a)))
                # a run is informative only when the baseline version accepted the input (returned, or raised an exception the contract
                # declares): generated stand-ins on which both versions crash the same way say nothing
                if outs[0][0] == "exc" and not _declared_name(E, contract, outs[0][1]):
                    if outs[0] != outs[1] and diff is None and outs[1][0] == "ret":
                        pass
                    continue
                runs += 1
                outcomes.add(outs[0][:2])
                if outs[0] != outs[1] and diff is None:
                    diff = {"inputs": {k: _short(v) for k, v in args.items()}, "baseline": outs[0][:2], "current": outs[1][:2],
                            "summary": f"on {_short(args)} the baseline gives {outs[0][0]} {outs[0][1][:120]}, the current code {outs[1][0]} {outs[1][1][:120]}"}
                    break
    finally:
        logging.disable(logging.NOTSET)
        for owner_obj, name, orig in patches:
            setattr(owner_obj, name, orig)
    # a sample in which the baseline always does the same thing (a function of the environment rather than of its arguments, a
    # generator that never reaches the interesting inputs) is no evidence of equivalence
    return {"runs": runs if len(outcomes) >= 3 else 0, "difference": diff, "distinct_outcomes": len(outcomes)}
