"""`./check replay <file>`: re-run the check of the property the replay file belongs to and show the recorded obligation."""
import json
import os
import sys


def replay_file(path):
    rec = json.load(open(path))
    print(json.dumps({k: rec.get(k) for k in ("property", "obligation", "clause", "replay", "path_notes")}, indent=1, default=str))
    from pyvc.cli import load_contracts, run_property
    import time
    REG = load_contracts()
    code = run_property(REG, rec["property"], "quick", 0, time.time())
    return code
