"""Symbolic values and the per-path state of the pyvc symbolic executor."""
from __future__ import annotations

import z3

from .ty import *  # noqa


class SVal:
    """a z3 term together with the Python-level type it stands for"""
    __slots__ = ("t", "ty", "origin")

    def __init__(self, t, ty, origin=None):
        self.t = t
        self.ty = ty
        self.origin = origin        # LValue this (container) value was read from: write-back target for in-place mutation

    def __repr__(self):
        return f"<{self.ty}: {self.t}>"


class PyObj:
    """a concrete Python object known at verification time (module, class, function, constant)"""
    __slots__ = ("obj",)

    def __init__(self, obj):
        self.obj = obj

    def __repr__(self):
        return f"<py {self.obj!r}>"


class Closure:
    __slots__ = ("node", "env", "globs")

    def __init__(self, node, env, globs):
        self.node, self.env, self.globs = node, env, globs


class BoundM:
    """method access on a value: recv.name (recv_lv: where recv lives, for in-place mutation)"""
    __slots__ = ("recv", "name", "lv")

    def __init__(self, recv, name, lv=None):
        self.recv, self.name, self.lv = recv, name, lv

    def __repr__(self):
        return f"<bound {self.recv}.{self.name}>"


class STuple:
    """Python tuple of statically known arity"""
    __slots__ = ("items",)

    def __init__(self, items):
        self.items = list(items)

    def __repr__(self):
        return f"<tuple {self.items}>"


class Empty:
    """[] / {} / set() literal whose element type is not yet known"""
    __slots__ = ("kind",)

    def __init__(self, kind):
        self.kind = kind

    def __repr__(self):
        return f"<empty {self.kind}>"


class SpecFn:
    __slots__ = ("name",)

    def __init__(self, name):
        self.name = name


class AnyOf:
    """ANY("type"): the whole sort, only as the iterable of a quantifier"""
    __slots__ = ("ty",)

    def __init__(self, ty):
        self.ty = ty


class IterView:
    """lazily described iterable: enumerate(xs), range(a,b), dict.items() ... used by for/comprehensions"""
    __slots__ = ("kind", "args")

    def __init__(self, kind, *args):
        self.kind, self.args = kind, args


# LValues ------------------------------------------------------------------------------------------
class LV:
    __slots__ = ("kind", "a", "b")

    def __init__(self, kind, a, b=None):
        self.kind, self.a, self.b = kind, a, b     # ('var', name) ('attr', objSVal, field) ('key', LV, key) ('ghost', name)

    def __repr__(self):
        return f"LV({self.kind},{self.a},{self.b})"


class State:
    def __init__(self):
        self.env = {}
        self.heap = {}          # (field, tykey) -> z3 array Ref -> sort
        self.ghost = {}         # name -> SVal
        self.pc = []
        self.status = None      # None | ('return', v) | ('raise', SVal EXC) | ('break',) | ('continue',)
        self.tainted = []
        self.clock = z3.IntVal(0)
        self.trace_notes = []   # human readable notes of the path (for replay files)
        self.nofork = 0
        self.spec = 0           # >0 while evaluating a specification expression
        self.old = None         # entry state, for old(...)
        self.bound = []         # stack of bound-variable frames (quantifier bodies)
        self.qvars = []         # z3 constants bound by enclosing quantifiers/comprehensions
        self.bmarks = []        # indices into pc that are branch decisions (the rest are assumed facts)

    def copy(self):
        s = State.__new__(State)
        s.env = dict(self.env)
        s.heap = dict(self.heap)
        s.ghost = dict(self.ghost)
        s.pc = list(self.pc)
        s.status = self.status
        s.tainted = list(self.tainted)
        s.clock = self.clock
        s.trace_notes = list(self.trace_notes)
        s.nofork = self.nofork
        s.spec = self.spec
        s.old = self.old
        s.bound = list(self.bound)
        s.bmarks = list(self.bmarks)
        s.qvars = list(self.qvars)
        return s

    def assume(self, c):
        if c is True or (z3.is_true(c) if isinstance(c, z3.ExprRef) else False):
            return self
        if self.qvars and _mentions(c, self.qvars):
            raise OutsideSubset("a fact about a bound variable would escape its binder")
        self.pc.append(c)
        return self

    def note(self, s):
        self.trace_notes.append(s)


def _mentions(expr, consts):
    ids = {c.get_id() for c in consts}
    seen = set()
    todo = [expr]
    while todo:
        x = todo.pop()
        i = x.get_id()
        if i in seen:
            continue
        seen.add(i)
        if i in ids:
            return True
        if z3.is_quantifier(x):
            todo.append(x.body())
        elif z3.is_app(x):
            todo.extend(x.children())
    return False
