"""Discharging obligations: z3 (python API) first; on `unknown` the same SMT-LIB text goes to cvc5 and z3-new CLIs."""
from __future__ import annotations

import os
import shutil
import subprocess
import tempfile
import time

import z3

QUICK_MS = int(os.environ.get("PYVC_TIMEOUT_MS", "20000"))


class Result:
    def __init__(self, status, backend, secs, model=None, reason=""):
        self.status = status      # 'discharged' | 'refuted' | 'undecided'
        self.backend = backend
        self.secs = secs
        self.model = model
        self.reason = reason


def _solver(timeout_ms):
    s = z3.Solver()
    s.set("timeout", timeout_ms)
    return s


def check_sat(assertions, timeout_ms=500):
    """quick feasibility test used while exploring paths: 'sat' | 'unsat' | 'unknown'"""
    s = _solver(timeout_ms)
    s.add(*assertions)
    r = s.check()
    return str(r)


def _ground_lens(exprs):
    out = {}
    seen = set()
    todo = list(exprs)
    while todo:
        x = todo.pop()
        i = x.get_id()
        if i in seen:
            continue
        seen.add(i)
        if z3.is_quantifier(x):
            todo.append(x.body())
            continue
        if z3.is_app(x):
            if x.decl().name() == "len" and x.num_args() == 1 and not _has_var(x):
                out[i] = x
            todo.extend(x.children())
    return list(out.values())[:40]


def _has_var(x):
    todo = [x]
    while todo:
        y = todo.pop()
        if z3.is_var(y):
            return True
        if z3.is_app(y):
            todo.extend(y.children())
    return False


_sk = [0]


def split_goal(goal, depth=0):
    """goal -> list of (extra hypotheses, subgoal): conjunctions are split, universally quantified goals are skolemised
    with fresh constants, iff is split into two implications, implications move their antecedent to the hypotheses"""
    out = []
    if depth > 6:
        return [([], goal)]
    if z3.is_quantifier(goal) and goal.is_forall():
        n = goal.num_vars()
        consts = []
        for i in range(n):
            _sk[0] += 1
            consts.append(z3.Const(f"sk!{goal.var_name(i)}!{_sk[0]}", goal.var_sort(i)))
        body = z3.substitute_vars(goal.body(), *reversed(consts))
        return split_goal(body, depth + 1)
    if z3.is_and(goal):
        for ch in goal.children():
            out.extend(split_goal(ch, depth + 1))
        return out
    if z3.is_implies(goal):
        a, b = goal.children()
        return [([a] + h, g) for h, g in split_goal(b, depth + 1)]
    if z3.is_eq(goal) and z3.is_bool(goal.arg(0)) and not (z3.is_true(goal.arg(1)) or z3.is_false(goal.arg(1))) and depth < 4:
        a, b = goal.arg(0), goal.arg(1)
        if z3.is_quantifier(a) or z3.is_quantifier(b) or z3.is_and(a) or z3.is_and(b) or z3.is_or(a) or z3.is_or(b):
            return [([a] + h, g) for h, g in split_goal(b, depth + 1)] + [([b] + h, g) for h, g in split_goal(a, depth + 1)]
    return [([], goal)]


def discharge(axioms, pc, goal, timeout_ms=None, both=False, wf_axioms=()):
    """prove  axioms /\\ wf_axioms /\\ pc  ==>  goal.  On `unknown` the query is repeated without the list
    well-formedness axioms: `unsat` there still proves the goal (fewer hypotheses); `sat` there yields a candidate
    counter-model (the dropped axioms only fix unobservable cells), flagged `model_modulo_wf`, to be replayed."""
    timeout_ms = timeout_ms or QUICK_MS
    first = min(timeout_ms, 6000) if wf_axioms else timeout_ms
    r = _discharge(list(axioms) + list(wf_axioms), pc, goal, first, both)
    if r.status != "undecided" or not wf_axioms:
        return r
    r2 = _discharge(list(axioms), pc, goal, timeout_ms, False)
    if r2.status == "discharged":
        r2.secs += r.secs
        return r2
    if r2.status == "refuted":
        r2.secs += r.secs
        r2.reason = (r2.reason + "; " if r2.reason else "") + "counter-model found after dropping the list-canonical-form axioms (full query: unknown)"
        r2.modulo_wf = True
        return r2
    if first < timeout_ms:
        r3 = _discharge(list(axioms) + list(wf_axioms), pc, goal, timeout_ms, both)
        r3.secs += r.secs + r2.secs
        return r3
    return r


def _discharge(axioms, pc, goal, timeout_ms=None, both=False):
    parts = split_goal(goal)
    if len(parts) <= 1:
        return discharge1(axioms, pc, goal, timeout_ms, both)
    t0 = time.time()
    worst = None
    backends = set()
    for hyps, g in parts:
        r = discharge1(axioms, list(pc) + hyps, g, timeout_ms, both)
        backends.add(r.backend)
        if r.status == "refuted":
            r.secs = time.time() - t0
            return r
        if r.status == "undecided" and worst is None:
            worst = r
    if worst is not None:
        worst.secs = time.time() - t0
        return worst
    return Result("discharged", "+".join(sorted(b for b in backends if b)), time.time() - t0)


def discharge1(axioms, pc, goal, timeout_ms=None, both=False):
    timeout_ms = timeout_ms or QUICK_MS
    t0 = time.time()
    s = _solver(timeout_ms)
    s.add(*axioms)
    s.add(*pc)
    s.add(z3.Not(goal))
    r = s.check()
    secs = time.time() - t0
    if r == z3.unsat and not both:
        return Result("discharged", "z3-5.1(api)", secs)
    if r == z3.sat:
        m = s.model()
        # prefer a small witness: bound every ground list length that occurs in the query, keep the model if still sat
        lens = _ground_lens(list(pc) + [goal])
        if lens:
            s.push()
            s.set("timeout", 3000)
            for t in lens:
                s.add(t <= 2)
            if s.check() == z3.sat:
                m = s.model()
            s.pop()
        return Result("refuted", "z3-5.1(api)", secs, model=m)
    smt2 = s.to_smt2()
    if r == z3.unsat and both:
        r2, b2 = _cli(smt2, timeout_ms)
        if r2 == "sat":
            return Result("undecided", "z3-5.1(api)+" + b2, time.time() - t0, reason="solvers disagree: z3 unsat, %s sat" % b2)
        return Result("discharged", "z3-5.1(api)" + ("+" + b2 if r2 == "unsat" else ""), time.time() - t0)
    reason = s.reason_unknown()
    r2, b2 = _cli(smt2, timeout_ms)
    if r2 == "unsat":
        return Result("discharged", b2, time.time() - t0)
    if r2 == "sat":
        return Result("refuted", b2, time.time() - t0, model=None, reason="sat by " + b2 + " (no model extracted)")
    return Result("undecided", "z3-5.1(api)", time.time() - t0, reason=f"unknown: {reason}")


def _cli(smt2, timeout_ms):
    """try cvc5 then /usr/bin/z3 (4.8.12) on the SMT-LIB text; returns (sat|unsat|unknown, backend)"""
    secs = max(1, timeout_ms // 1000)
    with tempfile.NamedTemporaryFile("w", suffix=".smt2", delete=False) as f:
        f.write(smt2)
        path = f.name
    try:
        for name, cmd in (("cvc5-1.0.3", ["/usr/bin/cvc5", "--strings-exp", f"--tlimit={timeout_ms}", path]),
                          ("z3-4.8.12", ["/usr/bin/z3", f"-T:{secs}", path])):
            if not shutil.which(cmd[0]) and not os.path.exists(cmd[0]):
                continue
            try:
                out = subprocess.run(cmd, capture_output=True, text=True, timeout=secs + 5).stdout.strip().splitlines()
            except subprocess.TimeoutExpired:
                continue
            if out and out[0] in ("sat", "unsat"):
                return out[0], name
        return "unknown", ""
    finally:
        os.unlink(path)
