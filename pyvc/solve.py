"""Discharging obligations: z3 (python API) first; on `unknown` the same SMT-LIB text goes to cvc5 and z3-new CLIs."""
from __future__ import annotations

import os
import shutil
import subprocess
import tempfile
import time

import z3

QUICK_MS = int(os.environ.get("PYVC_TIMEOUT_MS", "40000"))      # final full attempt; the first attempt is capped at 6 s


class Result:
    def __init__(self, status, backend, secs, model=None, reason=""):
        self.status = status      # 'discharged' | 'refuted' | 'undecided'
        self.backend = backend
        self.secs = secs
        self.model = model
        self.reason = reason


def _solver(timeout_ms):
    s = z3.Solver()
    s.set("timeout", timeout_ms)
    return s


def check_sat(assertions, timeout_ms=500):
    """quick feasibility test used while exploring paths: 'sat' | 'unsat' | 'unknown'"""
    s = _solver(timeout_ms)
    s.add(*assertions)
    r = s.check()
    return str(r)


def _ground_lens(exprs):
    out = {}
    seen = set()
    todo = list(exprs)
    while todo:
        x = todo.pop()
        i = x.get_id()
        if i in seen:
            continue
        seen.add(i)
        if z3.is_quantifier(x):
            todo.append(x.body())
            continue
        if z3.is_app(x):
            if x.decl().name().startswith("len!") and x.num_args() == 1 and not _has_var(x):
                out[i] = x
            todo.extend(x.children())
    return list(out.values())[:40]


def _has_var(x):
    todo = [x]
    while todo:
        y = todo.pop()
        if z3.is_var(y):
            return True
        if z3.is_app(y):
            todo.extend(y.children())
    return False


def unfold_instances(rec_defs, exprs, rounds=2):
    """definitional equations of recursive spec functions at the ground applications occurring in exprs"""
    if not rec_defs:
        return []
    by_decl = {f.name(): (f, formals, body, side) for f, formals, body, side in rec_defs}
    out, done = [], set()
    frontier = list(exprs)
    for _ in range(rounds):
        apps = {}
        seen = set()
        todo = list(frontier)
        while todo:
            x = todo.pop()
            i = x.get_id()
            if i in seen:
                continue
            seen.add(i)
            if z3.is_quantifier(x):
                todo.append(x.body())
                continue
            if z3.is_app(x):
                if x.decl().name() in by_decl and not _has_var(x) and i not in done:
                    apps[i] = x
                todo.extend(x.children())
        new = []
        for i, app in apps.items():
            done.add(i)
            f, formals, body, side = by_decl[app.decl().name()]
            sub = list(zip(formals, app.children()))
            new.append(app == z3.substitute(body, *sub))
            for sd in side:
                new.append(z3.substitute(sd, *sub))
        out.extend(new)
        frontier = new
        if not new:
            break
    return out


def trig(x):
    """trigger predicate for whole-sort quantifiers: forall x: T. body  is instantiated at every term t with trig(t)"""
    s = x.sort()
    name = "trig!" + "".join(c if c.isalnum() else "_" for c in str(s))
    return z3.Function(name, s, z3.BoolSort())(x)


_sk = [0]


def split_goal(goal, depth=0):
    """goal -> list of (extra hypotheses, subgoal): conjunctions are split, universally quantified goals are skolemised
    with fresh constants, iff is split into two implications, implications move their antecedent to the hypotheses"""
    out = []
    if depth > 6:
        return [([], goal)]
    if z3.is_quantifier(goal) and goal.is_forall():
        n = goal.num_vars()
        consts = []
        for i in range(n):
            _sk[0] += 1
            consts.append(z3.Const(f"sk!{goal.var_name(i)}!{_sk[0]}", goal.var_sort(i)))
        body = z3.substitute_vars(goal.body(), *reversed(consts))
        # whole-sort quantifiers of the contract language (ANY('T')) are triggered on trig(x): mention the skolems
        trigs = [trig(c) for c in consts]
        return [(trigs + h, g) for h, g in split_goal(body, depth + 1)]
    if z3.is_and(goal):
        for ch in goal.children():
            out.extend(split_goal(ch, depth + 1))
        return out
    if z3.is_implies(goal):
        a, b = goal.children()
        return [([a] + h, g) for h, g in split_goal(b, depth + 1)]
    if z3.is_eq(goal) and z3.is_bool(goal.arg(0)) and not (z3.is_true(goal.arg(1)) or z3.is_false(goal.arg(1))) and depth < 4:
        a, b = goal.arg(0), goal.arg(1)
        if z3.is_quantifier(a) or z3.is_quantifier(b) or z3.is_and(a) or z3.is_and(b) or z3.is_or(a) or z3.is_or(b):
            return [([a] + h, g) for h, g in split_goal(b, depth + 1)] + [([b] + h, g) for h, g in split_goal(a, depth + 1)]
    return [([], goal)]


_symcache = {}


def symbols(e):
    """names of the uninterpreted constants and functions occurring in e"""
    i = e.get_id()
    if i in _symcache:
        return _symcache[i]
    out = set()
    seen = set()
    todo = [e]
    while todo:
        x = todo.pop()
        j = x.get_id()
        if j in seen:
            continue
        seen.add(j)
        if z3.is_quantifier(x):
            todo.append(x.body())
        elif z3.is_app(x):
            d = x.decl()
            if d.kind() == z3.Z3_OP_UNINTERPRETED:
                out.add(d.name())
            todo.extend(x.children())
    _symcache[i] = out
    return out


_GENERIC = ("dflt!", "trig!", "None!U")


def relevant(axioms, query):
    """cone of influence: an axiom is kept when every uninterpreted symbol it constrains occurs in the query (or in an
    axiom already kept); sort-level constants (defaults, trigger predicates) do not count"""
    have = set()
    for q in query:
        have |= symbols(q)
    pending = [(a, {s for s in symbols(a) if not s.startswith(_GENERIC)}) for a in axioms]
    kept = []
    changed = True
    while changed:
        changed = False
        rest = []
        for a, syms in pending:
            if syms <= have or (syms and len(syms & have) >= 1 and _is_definitional(a, syms, have)):
                kept.append(a)
                new = symbols(a) - have
                if new:
                    have |= new
                    changed = True
            else:
                rest.append((a, syms))
        pending = rest
    return kept


def _is_definitional(a, syms, have):
    """axioms about an uninterpreted FUNCTION that occurs in the query are kept even if they mention helper symbols"""
    return False


def slice_pc(pc, goal):
    """hypotheses connected to the goal through shared uninterpreted symbols (dropping hypotheses is sound for proving)"""
    have = {s for s in symbols(goal) if not s.startswith(_GENERIC)}
    items = [(p, {s for s in symbols(p) if not s.startswith(_GENERIC)}) for p in pc]
    kept_idx = set()
    changed = True
    while changed:
        changed = False
        for i, (p, syms) in enumerate(items):
            if i in kept_idx:
                continue
            if syms & have:
                kept_idx.add(i)
                if not syms <= have:
                    have |= syms
                    changed = True
    return [p for i, (p, _) in enumerate(items) if i in kept_idx]


_wit = [0]


def _ground_list_terms(exprs):
    from . import seqs as Q
    out, seen, todo = [], set(), list(exprs)
    while todo:
        x = todo.pop()
        i = x.get_id()
        if i in seen:
            continue
        seen.add(i)
        if z3.is_quantifier(x):
            continue
        if z3.is_app(x):
            if Q.is_list_sort(x.sort()) and not _has_var(x):
                out.append(x)
            todo.extend(x.children())
    return out


def is_wf_quantifier(a):
    """the engine's quantified list well-formedness axioms (recognised by their bound-variable names)"""
    if not z3.is_quantifier(a):
        return z3.is_app(a) and a.decl().kind() == z3.Z3_OP_IMPLIES and is_wf_quantifier(a.arg(1))
    n = a.var_name(0)
    return n == "r!wf" or n.startswith("a!wf") or n.startswith("i!can")


def ground_wf_instances(exprs):
    from . import seqs as Q
    return [Q.NonNegLen(t) for t in _ground_list_terms(exprs)]


def extensionality_witnesses(exprs):
    """Quantifier-free consequences of list canonicity for model search: for every equality atom between lists a, b (also
    through one or two levels of record/Optional fields) a fresh index k with
        a != b  ==>  len a != len b  \\/  (0 <= k < len a  /\\  a[k] != b[k])
    so that a model found WITHOUT the quantified canonical-form axioms cannot make two lists differ only in the
    unobservable cells outside [0, len)."""
    from . import seqs as Q
    out = []
    seen = set()
    pairs = []
    todo = list(exprs)
    while todo:
        x = todo.pop()
        i = x.get_id()
        if i in seen:
            continue
        seen.add(i)
        if z3.is_quantifier(x):
            continue                      # atoms under binders mention bound variables
        if z3.is_app(x):
            if (z3.is_eq(x) or z3.is_distinct(x)) and x.num_args() == 2:
                pairs.append((x.arg(0), x.arg(1), 0))
            todo.extend(x.children())
    # every pair of ground list terms of one sort (capped): a disequality forced through congruence (f(a) != f(b)) has no
    # explicit atom
    by_sort = {}
    for x in _ground_list_terms(exprs):
        by_sort.setdefault(x.sort().name(), []).append(x)
    for ts in by_sort.values():
        ts = ts[:24]
        for i in range(len(ts)):
            for j in range(i + 1, len(ts)):
                pairs.append((ts[i], ts[j], 1))
    done = set()
    while pairs:
        a, b, d = pairs.pop()
        key = (a.get_id(), b.get_id())
        if key in done or _has_var(a) or _has_var(b):
            continue
        done.add(key)
        srt = a.sort()
        if Q.is_list_sort(srt):
            _wit[0] += 1
            k = z3.Int(f"k!ext{_wit[0]}")
            out.append(z3.Implies(a != b, z3.Or(Q.Length(a) != Q.Length(b),
                                                z3.And(0 <= k, k < Q.Length(a), Q.At(a, k) != Q.At(b, k)))))
            if d < 2:
                pairs.append((Q.At(a, k), Q.At(b, k), d + 1))
        elif isinstance(srt, z3.DatatypeSortRef) and d < 2:
            for ci in range(srt.num_constructors()):
                c = srt.constructor(ci)
                for fi in range(c.arity()):
                    acc = srt.accessor(ci, fi)
                    if Q.is_list_sort(acc.range()) or isinstance(acc.range(), z3.DatatypeSortRef):
                        pairs.append((acc(a), acc(b), d + 1))
    return out


def _dedupe(xs):
    seen, out = set(), []
    for x in xs:
        i = x.get_id()
        if i not in seen:
            seen.add(i)
            out.append(x)
    return out


def discharge(axioms, pc, goal, timeout_ms=None, both=False, wf_axioms=()):
    timeout_ms = timeout_ms or QUICK_MS
    axioms = _dedupe(axioms)
    wf_axioms = _dedupe(wf_axioms)
    # 1. goal-directed slice of the hypotheses (sound: fewer hypotheses); 2. the full path condition
    sliced = slice_pc(list(pc), goal)
    if len(sliced) < len(pc):
        q1 = sliced + [goal]
        ax1 = relevant(list(axioms), q1)
        wf1 = relevant(list(wf_axioms), q1 + ax1)
        r = _discharge_rel(ax1, sliced, goal, min(timeout_ms, 5000), False, wf1, search=False)
        if r.status == "discharged" and not both:
            return r
    query = list(pc) + [goal]
    axioms = relevant(list(axioms), query)
    wf_axioms = relevant(list(wf_axioms), query + axioms)
    return _discharge_rel(axioms, pc, goal, timeout_ms, both, wf_axioms)


def _discharge_rel(axioms, pc, goal, timeout_ms=None, both=False, wf_axioms=(), search=True):
    """prove  axioms /\\ wf_axioms /\\ pc  ==>  goal.  On `unknown` the query is repeated without the list
    well-formedness axioms: `unsat` there still proves the goal (fewer hypotheses); `sat` there yields a candidate
    counter-model (the dropped axioms only fix unobservable cells), flagged `model_modulo_wf`, to be replayed."""
    timeout_ms = timeout_ms or QUICK_MS
    first = min(timeout_ms, 6000) if wf_axioms else timeout_ms
    r = _discharge(list(axioms) + list(wf_axioms), pc, goal, first, both)
    if r.status != "undecided" or not search:
        return r
    # model search without the quantified canonical-form axioms, but with their quantifier-free extensionality consequences
    ax2 = [a for a in axioms if not is_wf_quantifier(a)]
    base = list(pc) + [goal] + [a for a in ax2 if not z3.is_quantifier(a)]
    wits = extensionality_witnesses(base) + ground_wf_instances(base)
    r2 = _discharge(ax2, list(pc) + wits, goal, timeout_ms, False, search=True)
    if r2.status == "discharged":
        r2.secs += r.secs
        return r2
    if r2.status == "refuted":
        if getattr(r2, "candidate", False) and first < timeout_ms:
            # a candidate from E-matching saturation is only reported after the full proof attempt has also failed
            r3 = _discharge(list(axioms) + list(wf_axioms), pc, goal, timeout_ms, both)
            if r3.status == "discharged":
                r3.secs += r.secs + r2.secs
                return r3
            r2.secs += r3.secs
        r2.secs += r.secs
        r2.reason = (r2.reason + "; " if r2.reason else "") + ("counter-model of the query with the quantified list well-formedness axioms replaced by "
                                                               "their ground instances and quantifier-free extensionality consequences (full query: unknown)")
        r2.modulo_wf = True
        return r2
    if first < timeout_ms:
        r3 = _discharge(list(axioms) + list(wf_axioms), pc, goal, timeout_ms, both)
        r3.secs += r.secs + r2.secs
        return r3
    return r


def _discharge(axioms, pc, goal, timeout_ms=None, both=False, search=False):
    parts = split_goal(goal)
    if search:
        t0 = time.time()
        worst = None
        for hyps, g in parts:
            r = discharge1_search(axioms, list(pc) + hyps, g, timeout_ms)
            if r.status == "refuted":
                r.secs = time.time() - t0
                return r
            if r.status == "undecided" and worst is None:
                worst = r
        if worst is not None:
            worst.secs = time.time() - t0
            return worst
        return Result("discharged", "z3-5.1(api)", time.time() - t0)
    if len(parts) == 1:
        return discharge1(axioms, list(pc) + parts[0][0], parts[0][1], timeout_ms, both)
    t0 = time.time()
    worst = None
    backends = set()
    for hyps, g in parts:
        r = discharge1(axioms, list(pc) + hyps, g, timeout_ms, both)
        backends.add(r.backend)
        if r.status == "refuted":
            r.secs = time.time() - t0
            return r
        if r.status == "undecided" and worst is None:
            worst = r
    if worst is not None:
        worst.secs = time.time() - t0
        return worst
    return Result("discharged", "+".join(sorted(b for b in backends if b)), time.time() - t0)


def _simp(e):
    """select-over-store and arithmetic simplification: keeps quantifier triggers syntactically matchable"""
    try:
        return z3.simplify(e, elim_and=False, som=False, blast_select_store=False)
    except z3.Z3Exception:
        return e


def discharge1_search(axioms, pc, goal, timeout_ms=None):
    """model search for  axioms /\\ pc /\\ not goal  (the caller has replaced the quantified well-formedness axioms by ground
    instances).  1. complete search (MBQI): `sat` is a model of every remaining axiom.  2. E-matching only: when the solver
    stops with `unknown: incomplete quantifiers` (saturation, not a timeout) its candidate model satisfies the ground part
    and every instance E-matching produced -- the Boogie/Dafny notion of a counterexample; flagged `candidate`."""
    timeout_ms = timeout_ms or QUICK_MS
    t0 = time.time()
    spc = [_simp(p) for p in pc]
    ng = z3.Not(_simp(goal))
    s = _solver(min(timeout_ms, 8000))
    s.add(*axioms)
    s.add(*spc)
    s.add(ng)
    r = s.check()
    if r == z3.unsat:
        return Result("discharged", "z3-5.1(api)", time.time() - t0)
    if r == z3.sat:
        return Result("refuted", "z3-5.1(api)", time.time() - t0, model=s.model())
    for max_inst in (None, 3000):
        s = z3.SimpleSolver()         # the plain SMT core keeps its candidate model on `unknown`
        s.set("timeout", min(timeout_ms, 15000))
        s.set("mbqi", False)
        if max_inst is not None:
            # E-matching did not saturate in time: bound the number of instances instead (still every ground fact and
            # every generated instance is satisfied by the candidate)
            s.set("qi.max_instances", max_inst)
        s.add(*axioms)
        s.add(*spc)
        s.add(ng)
        r = s.check()
        if r != z3.unknown or "incomplete" in s.reason_unknown():
            break
    if r == z3.unsat:
        return Result("discharged", "z3-5.1(api)", time.time() - t0)
    if r == z3.sat:
        return Result("refuted", "z3-5.1(api)", time.time() - t0, model=s.model())
    reason = s.reason_unknown()
    if "incomplete" in reason:
        try:
            m = s.model()
        except z3.Z3Exception:
            m = None
        if m is not None:
            res = Result("refuted", "z3-5.1(api, E-matching saturation)", time.time() - t0, model=m,
                         reason="candidate counter-model: satisfies the ground facts and every E-matching instance of the quantified axioms")
            res.candidate = True
            return res
    return Result("undecided", "z3-5.1(api)", time.time() - t0, reason=f"unknown: {reason}")


def discharge1(axioms, pc, goal, timeout_ms=None, both=False):
    timeout_ms = timeout_ms or QUICK_MS
    t0 = time.time()
    # portfolio: quantifier instantiation is heuristic and sensitive to irrelevant facts; a few cheap re-runs with other
    # random seeds / without model-based instantiation settle most `unknown`s (never turns an answer into another)
    spc = [_simp(p) for p in pc]
    ng = z3.Not(_simp(goal))
    configs = [{}, {"smt.random_seed": 7}, {"smt.random_seed": 23, "smt.mbqi": False}, {"smt.random_seed": 101, "smt.qi.eager_threshold": 100.0}]
    slice_ms = max(1500, timeout_ms // 5)
    r = None
    for ci, cfg in enumerate(configs):
        last = ci == len(configs) - 1
        s = _solver(timeout_ms if last else slice_ms)
        for k, v in cfg.items():
            s.set(k, v)
        s.add(*axioms)
        s.add(*spc)
        s.add(ng)
        r = s.check()
        if r != z3.unknown:
            break
    secs = time.time() - t0
    if r == z3.unsat and not both:
        return Result("discharged", "z3-5.1(api)", secs)
    if r == z3.sat:
        m = s.model()
        # prefer a small witness: bound every ground list length that occurs in the query, keep the model if still sat
        lens = _ground_lens(list(pc) + [goal])
        if lens:
            s.push()
            s.set("timeout", 3000)
            for t in lens:
                s.add(t <= 2)
            if s.check() == z3.sat:
                m = s.model()
            s.pop()
        return Result("refuted", "z3-5.1(api)", secs, model=m)
    smt2 = s.to_smt2()
    if r == z3.unsat and both:
        r2, b2 = _cli(smt2, timeout_ms)
        if r2 == "sat":
            return Result("undecided", "z3-5.1(api)+" + b2, time.time() - t0, reason="solvers disagree: z3 unsat, %s sat" % b2)
        return Result("discharged", "z3-5.1(api)" + ("+" + b2 if r2 == "unsat" else ""), time.time() - t0)
    reason = s.reason_unknown()
    r2, b2 = _cli(smt2, timeout_ms)
    if r2 == "unsat":
        return Result("discharged", b2, time.time() - t0)
    if r2 == "sat":
        return Result("refuted", b2, time.time() - t0, model=None, reason="sat by " + b2 + " (no model extracted)")
    return Result("undecided", "z3-5.1(api)", time.time() - t0, reason=f"unknown: {reason}")


def _cli(smt2, timeout_ms):
    """try cvc5 then /usr/bin/z3 (4.8.12) on the SMT-LIB text; returns (sat|unsat|unknown, backend)"""
    secs = max(1, timeout_ms // 1000)
    with tempfile.NamedTemporaryFile("w", suffix=".smt2", delete=False) as f:
        f.write(smt2)
        path = f.name
    try:
        for name, cmd in (("cvc5-1.0.3", ["/usr/bin/cvc5", "--strings-exp", f"--tlimit={timeout_ms}", path]),
                          ("z3-4.8.12", ["/usr/bin/z3", f"-T:{secs}", path])):
            if not shutil.which(cmd[0]) and not os.path.exists(cmd[0]):
                continue
            try:
                out = subprocess.run(cmd, capture_output=True, text=True, timeout=secs + 5).stdout.strip().splitlines()
            except subprocess.TimeoutExpired:
                continue
            if out and out[0] in ("sat", "unsat"):
                return out[0], name
        return "unknown", ""
    finally:
        os.unlink(path)
