"""Replay of a solver counter-model against the REAL function.

The model's values for the parameters (and the part of the initial heap reachable from them) are turned into real
objects of the real classes, the real function is called under /repo's current source, and the violated contract
clause - which is Python text - is evaluated natively on the real result.  If the clause is false (or a forbidden
exception escapes) the violation is reproduced.  Opaque values, ghost state and assumed externals cannot be
concretised: then no input is produced and the caller reports `no-failing-input-found`.
"""
from __future__ import annotations

import copy
import json
import traceback

import z3

from . import seqs as Q

from . import locate
from .ty import *      # noqa
from .values import *  # noqa


class CannotConcretise(Exception):
    pass


class Concretiser:
    def __init__(self, E, model, heap):
        self.E, self.m, self.heap = E, model, heap
        self.refs = {}

    def val(self, term, ty):
        E, m = self.E, self.m
        if ty is NONE:
            return None
        v = m.eval(term, model_completion=True)
        if ty is INT:
            return v.as_long()
        if ty is BOOL:
            return z3.is_true(v)
        if ty is STR:
            return v.as_string() if z3.is_string_value(v) else ""
        if isinstance(ty, TOpt):
            dt = E.U.dt(ty)
            if z3.is_true(m.eval(dt.is_none(term), model_completion=True)):
                return None
            return self.val(dt.get(term), ty.inner)
        if isinstance(ty, TList):
            n = m.eval(Q.Length(term), model_completion=True).as_long()
            if n > 64:
                raise CannotConcretise("list too long in model")
            return [self.val(Q.At(term, z3.IntVal(i)), ty.elem) for i in range(n)]
        if isinstance(ty, TTuple):
            dt = E.U.dt(ty)
            return tuple(self.val(dt.accessor(0, i)(term), e) for i, e in enumerate(ty.elems))
        if isinstance(ty, TVal):
            rec = E.U.record_of(ty.cls)
            if rec is None or rec.pyclass is None:
                raise CannotConcretise(f"no class for {ty.cls}")
            dt = E.U.dt(ty)
            fields = E.U.all_fields(ty.cls)
            kw = {f: self.val(dt.accessor(0, i)(term), fty) for i, (f, fty) in enumerate(fields.items())}
            return _build(rec.pyclass, kw)
        if isinstance(ty, TRef):
            key = str(v)
            if key in self.refs:
                return self.refs[key]
            rec = E.U.record_of(ty.cls)
            if rec is None or rec.pyclass is None:
                raise CannotConcretise(f"no class for {ty.cls}")
            fields = E.U.all_fields(ty.cls)
            obj = _blank(rec.pyclass)
            self.refs[key] = obj
            for f, fty in fields.items():
                arr = self.heap.get((f, fty.key))
                if arr is None:
                    arr = z3.Const(f"H0_{f}_{_m(fty.key)}", z3.ArraySort(E.U.Ref, E.U.sort(fty)))
                try:
                    object.__setattr__(obj, f, self.val(z3.Select(arr, term), fty))
                except CannotConcretise:
                    object.__setattr__(obj, f, None)
            return obj
        if isinstance(ty, TDict):
            raise CannotConcretise("dict concretisation: use a dedicated adapter")
        if ty is OPAQUE:
            return Opaque(str(v))
        raise CannotConcretise(f"type {ty}")


class Opaque:
    """stand-in for a value the model only knows as an uninterpreted constant"""

    def __init__(self, name):
        self.name = name

    def __repr__(self):
        return f"<opaque {self.name}>"

    def __fspath__(self):
        return f"/nonexistent/{self.name}"


def _m(s):
    return "".join(c if c.isalnum() else "_" for c in s)


_SUB = {}


def _concrete(cls):
    """abstract bases (ABCDataclass refuses to instantiate its direct subclasses) get a trivial concrete subclass"""
    try:
        from codemodder.utils.abc_dataclass import ABCDataclass
    except Exception:
        return cls
    if isinstance(cls, type) and issubclass(cls, ABCDataclass) and cls.__bases__[0] is ABCDataclass:
        if cls not in _SUB:
            _SUB[cls] = type("Replay" + cls.__name__, (cls,), {})
        return _SUB[cls]
    return cls


def _blank(cls):
    return object.__new__(_concrete(cls))


def _build(cls, kw):
    cls = _concrete(cls)
    try:
        return cls(**kw)
    except Exception:
        obj = object.__new__(cls)
        for k, v in kw.items():
            object.__setattr__(obj, k, v)
        return obj


def implies(a, b):
    return (not a) or b


def iff(a, b):
    return bool(a) == bool(b)


def try_replay(E, qualname, model, entry_state, entry_frame, clause, kind):
    """-> dict(reproduced: bool|None, detail: str, inputs: repr)"""
    out = {"reproduced": None, "detail": "", "inputs": None}
    try:
        obj, owner, mod = locate.resolve(qualname)
        fn, fkind, _ = locate.unwrap(obj)
        conc = Concretiser(E, model, entry_state.heap)
        args = {}
        for n, v in entry_frame.items():
            if isinstance(v, SVal):
                args[n] = conc.val(v.t, v.ty)
            elif isinstance(v, PyObj):
                args[n] = v.obj
            else:
                raise CannotConcretise(f"parameter {n}")
        if any(isinstance(a, Opaque) for a in args.values()) and kind != "raises":
            # opaque params are fine only if the function never touches them; try anyway
            pass
        out["inputs"] = {k: _short(v) for k, v in args.items()}
        old_args = copy.deepcopy(args)
        try:
            result = fn(**args)
            raised = None
        except Exception as e:      # noqa
            result, raised = None, e
        if kind == "raises":
            if raised is not None:
                out["reproduced"] = True
                out["detail"] = f"real function raised {type(raised).__name__}: {raised}"
            else:
                out["reproduced"] = False
                out["detail"] = "real function did not raise on the model's input"
            return out
        if raised is not None:
            out["reproduced"] = False
            out["detail"] = f"real function raised {type(raised).__name__}: {raised} (clause not evaluated)"
            return out
        if clause is None:
            return out
        env = dict(args)
        env.update({"result": result, "implies": implies, "iff": iff, "old": lambda x: x})
        if "old(" in clause or "ANY(" in clause:
            raise CannotConcretise("clause uses old()/ANY(): native evaluation not supported")
        g = {"__builtins__": __builtins__}
        g.update(env)      # generator expressions inside eval() resolve free names in globals
        ok = eval(clause, g)
        out["reproduced"] = not bool(ok)
        out["detail"] = f"real result = {_short(result)}; clause evaluates to {bool(ok)}"
        return out
    except CannotConcretise as e:
        out["detail"] = f"cannot concretise: {e}"
        return out
    except Exception as e:
        out["detail"] = "replay error: " + "".join(traceback.format_exception_only(e)).strip()[:500]
        return out


def _short(v):
    r = repr(v)
    return r if len(r) < 600 else r[:600] + "..."
