"""pyvc: symbolic executor / verification-condition generator over the real Python functions of /repo.

Every target function is located through the interpreter (real module, real MRO), its `ast.FunctionDef` is read from
the file in the current working tree, and the body is executed path by path over symbolic values.  Callees are
replaced by their contracts (or inlined when marked so), loops by invariants, exceptions are explicit exits.
Each contract clause at each exit, each callee precondition and each loop invariant becomes a named obligation
`pc ==> goal` handed to the SMT back ends (solve.py).
"""
from __future__ import annotations

import ast
import builtins as _bi
import inspect
import itertools
import time

import z3

from . import seqs as Q

from . import locate, solve
from .api import Contract, Registry, parse_expr
from .ty import *      # noqa
from .values import *  # noqa

MAX_INLINE_DEPTH = 8
MAX_PATHS = 4000

MUTATORS = {"append", "extend", "add", "update", "setdefault", "pop", "remove", "insert", "clear", "sort",
            "discard", "write", "writelines", "write_bytes", "write_text", "seek"}


class Obligation:
    def __init__(self, oid, func, kind, pc, goal, notes=None, label=None, lineno=None):
        self.id, self.func, self.kind, self.pc, self.goal = oid, func, kind, list(pc), goal
        self.notes = list(notes or [])
        self.label = label
        self.lineno = lineno
        self.status = None
        self.backend = None
        self.secs = 0.0
        self.model_text = None
        self.reason = ""


class Undecided(Exception):
    pass


class Engine:
    def __init__(self, reg: Registry, tier="quick"):
        self.reg = reg
        self.tier = tier
        self.U = Universe()
        self.U.aliases.update(reg.aliases)
        for r in reg.records:
            pyclass = None
            try:
                pyclass = locate.resolve(r["qualname"])[0]
            except Exception:
                pyclass = None
            rec = Record(r["qualname"], r["kind"], r["fields"], r["bases"], pyclass)
            rec.defaults = r["defaults"]
            rec.validators = r["validators"]
            self.U.add_record(rec)
        self.obls: list[Obligation] = []
        self.axioms = []
        self.wf_axioms = []      # engine-generated well-formedness facts (canonical lists): dropped for model search only
        self.ufs = {}
        self.exc_ids = {}
        self.n = itertools.count()
        self.sink = []
        self.assumptions = set(reg.assumptions)
        self.dropped = set()
        self.functions = {}          # qualname -> info for evidence
        self.cur = None              # current function being verified (qualname)
        self.depth = 0
        self.paths = 0
        self.suppress = 0            # >0: obligations are not recorded (discovery runs)
        self.exc_sub = z3.Function("exc_sub", z3.IntSort(), z3.IntSort(), z3.BoolSort())
        self.exc_cls = z3.Function("exc_cls", self.U.Exc, z3.IntSort())
        self.cls_of = z3.Function("cls_of", self.U.Ref, z3.IntSort())
        self.born = z3.Function("born", self.U.Ref, z3.IntSort())
        self.rec_sub = z3.Function("rec_sub", z3.IntSort(), z3.IntSort(), z3.BoolSort())
        self.cls_ids = {}
        self.specfns = {}
        self.global_axioms_built = False
        self.comp_cache = {}
        self.sat_cache = {}
        self.feas_checks = 0

    # =============================================================================================
    # helpers: fresh symbols, uninterpreted functions, constants
    def fresh_name(self, hint):
        return f"{hint}!{next(self.n)}"

    def fresh(self, ty, hint="v"):
        if ty is NONE:
            return SVal(None, NONE)
        c = z3.Const(self.fresh_name(hint), self.U.sort(ty))
        for part, store in (("len", self.axioms), ("cells", self.wf_axioms)):
            w = self.wf(c, ty, part)
            if w is not None:
                store.append(w)
        return SVal(c, ty)

    def wf(self, t, ty, part, depth=0):
        """well-formedness of a symbolic value: lists have len >= 0 (part 'len') and are in canonical form (part 'cells',
        see seqs.py); None if nothing to say"""
        if isinstance(ty, TList):
            return Q.NonNegLen(t) if part == "len" else Q.CellsCanonical(t)
        if depth > 1:
            return None
        if isinstance(ty, TOpt):
            dt = self.U.dt(ty)
            w = self.wf(dt.get(t), ty.inner, part, depth + 1)
            return None if w is None else z3.Implies(dt.is_some(t), w)
        if isinstance(ty, TTuple):
            dt = self.U.dt(ty)
            ws = [self.wf(dt.accessor(0, i)(t), e, part, depth + 1) for i, e in enumerate(ty.elems)]
            ws = [w for w in ws if w is not None]
            return z3.And(ws) if ws else None
        if isinstance(ty, TVal):
            dt = self.U.dt(ty)
            ws = [self.wf(dt.accessor(0, i)(t), fty, part, depth + 1) for i, fty in enumerate(self.U.all_fields(ty.cls).values())]
            ws = [w for w in ws if w is not None]
            return z3.And(ws) if ws else None
        return None

    def wf_array(self, arr, ty):
        """forall r. wf(arr[r]) for a heap array version"""
        r = z3.Const("r!wf", self.U.Ref)
        for part, store in (("len", self.axioms), ("cells", self.wf_axioms)):
            w = self.wf(arr[r], ty, part)
            if w is not None:
                store.append(z3.ForAll([r], w, patterns=[arr[r]]))

    def wf_function(self, f, arg_sorts, res_ty=None):
        """forall args. canonical(f(args)) for an uninterpreted function returning a list"""
        rs = f.range()
        if not Q.is_list_sort(rs):
            return
        consts = [z3.Const(f"a!wf{i}", s) for i, s in enumerate(arg_sorts)]
        app = f(*consts)
        self.axioms.append(z3.ForAll(consts, Q.NonNegLen(app), patterns=[app]) if consts else Q.NonNegLen(app))
        self.wf_axioms.append(z3.ForAll(consts, Q.CellsCanonical(app), patterns=[app]) if consts else Q.CellsCanonical(app))

    def uf(self, name, arg_sorts, res_sort):
        key = (name, tuple(str(s) for s in arg_sorts), str(res_sort))
        if key not in self.ufs:
            self.ufs[key] = z3.Function(name + ("" if len([k for k in self.ufs if k[0] == name]) == 0 else f"!{len(self.ufs)}"),
                                        *arg_sorts, res_sort)
            self.wf_function(self.ufs[key], list(arg_sorts))
        return self.ufs[key]

    def const(self, v):
        if v is None:
            return SVal(None, NONE)
        if isinstance(v, bool):
            return SVal(z3.BoolVal(v), BOOL)
        if isinstance(v, int):
            return SVal(z3.IntVal(v), INT)
        if isinstance(v, str):
            return SVal(z3.StringVal(v), STR)
        raise OutsideSubset(f"constant {v!r}")

    def cls_id(self, qualname):
        if qualname not in self.cls_ids:
            self.cls_ids[qualname] = len(self.cls_ids) + 1
        return self.cls_ids[qualname]

    def exc_id(self, cls):
        """cls: real exception class"""
        if cls not in self.exc_ids:
            self.exc_ids[cls] = len(self.exc_ids) + 1
        return self.exc_ids[cls]

    def exc_class_by_name(self, name):
        if hasattr(_bi, name) and isinstance(getattr(_bi, name), type):
            return getattr(_bi, name)
        qn = self.reg.exceptions.get(name, name)
        obj = locate.resolve(qn)[0]
        return obj

    def new_exc(self, cls, st, exact=True):
        e = self.fresh(EXC, "exc_" + cls.__name__)
        i = self.exc_id(cls)
        if exact:
            st.assume(self.exc_cls(e.t) == i)
        else:
            st.assume(self.exc_sub(self.exc_cls(e.t), z3.IntVal(i)))
        return e

    def hierarchy_axioms(self):
        ax = []
        items = list(self.exc_ids.items())
        c = z3.Int("c!exc")
        for a, ia in items:
            for b, ib in items:
                ax.append(self.exc_sub(z3.IntVal(ia), z3.IntVal(ib)) == z3.BoolVal(issubclass(a, b)))
                if a is not b and issubclass(a, b):
                    ax.append(z3.ForAll([c], z3.Implies(self.exc_sub(c, z3.IntVal(ia)), self.exc_sub(c, z3.IntVal(ib)))))
                if ia < ib and not issubclass(a, b) and not issubclass(b, a):
                    # assumption: no exception class inherits from two unrelated classes mentioned in the code/contracts
                    ax.append(z3.ForAll([c], z3.Not(z3.And(self.exc_sub(c, z3.IntVal(ia)), self.exc_sub(c, z3.IntVal(ib))))))
        # record-class hierarchy for isinstance on Ref values
        citems = list(self.cls_ids.items())
        for a, ia in citems:
            for b, ib in citems:
                ax.append(self.rec_sub(z3.IntVal(ia), z3.IntVal(ib)) == z3.BoolVal(self.U.is_subclass(a, b)))
        return ax

    # =============================================================================================
    # value operations
    def truthy(self, v, st):
        if isinstance(v, PyObj):
            return z3.BoolVal(bool(v.obj))
        if isinstance(v, STuple):
            return z3.BoolVal(len(v.items) > 0)
        if isinstance(v, Empty):
            return z3.BoolVal(False)
        if isinstance(v, (Closure, BoundM, SpecFn)):
            return z3.BoolVal(True)
        ty = v.ty
        if ty is BOOL:
            return v.t
        if ty is INT:
            return v.t != 0
        if ty is STR:
            return Q.Length(v.t) > 0
        if ty is NONE:
            return z3.BoolVal(False)
        if isinstance(ty, TList):
            return Q.Length(v.t) > 0
        if isinstance(ty, TSet):
            return v.t != z3.K(self.U.sort(ty.elem), z3.BoolVal(False))
        if isinstance(ty, TDict):
            dt = self.U.dt(ty)
            return dt.dom(v.t) != z3.K(self.U.sort(ty.k), z3.BoolVal(False))
        if isinstance(ty, TOpt):
            dt = self.U.dt(ty)
            inner = SVal(dt.get(v.t), ty.inner)
            return z3.And(dt.is_some(v.t), self.truthy(inner, st))
        if isinstance(ty, (TRef, TVal, TTuple)):
            if isinstance(ty, TTuple):
                return z3.BoolVal(len(ty.elems) > 0)
            return z3.BoolVal(True)
        if ty is OPAQUE:
            return self.uf("truthy", [self.U.U], z3.BoolSort())(v.t)
        if ty is BYTES:
            return self.uf("truthy_bytes", [self.U.Bytes], z3.BoolSort())(v.t)
        if ty is EXC:
            return z3.BoolVal(True)
        raise OutsideSubset(f"truthiness of {ty}")

    def box(self, v):
        """typed value -> opaque U (injective uninterpreted boxing)"""
        if v.ty is OPAQUE:
            return v
        if v.ty is NONE:
            return SVal(z3.Const("None!U", self.U.U), OPAQUE)
        s = self.U.sort(v.ty)
        k = v.ty.key
        f = self.uf("box_" + _m(k), [s], self.U.U)
        g = self.uf("unbox_" + _m(k), [self.U.U], s)
        x = z3.Const("x!box", s)
        ax = z3.ForAll([x], g(f(x)) == x, patterns=[f(x)])
        if not any(ax.eq(a) for a in self.axioms):
            self.axioms.append(ax)
        return SVal(f(v.t), OPAQUE)

    def unbox(self, v, ty):
        if ty is OPAQUE:
            return v
        s = self.U.sort(ty)
        g = self.uf("unbox_" + _m(ty.key), [self.U.U], s)
        self.box(SVal(z3.Const("dummy!" + _m(ty.key), s), ty))
        return SVal(g(v.t), ty)

    def materialize(self, v, st, want=None):
        """turn STuple / Empty / PyObj constants into SVal"""
        if isinstance(v, SVal):
            return v
        if isinstance(v, PyObj):
            o = v.obj
            if o is None or isinstance(o, (bool, int, str)):
                return self.const(o)
            if isinstance(o, (list, tuple)) and all(isinstance(x, (str, int, bool)) for x in o):
                items = [self.const(x) for x in o]
                if isinstance(o, tuple) and not (want is not None and isinstance(want, TList)):
                    return self.materialize(STuple(items), st, want)
                ety = items[0].ty if items else (want.elem if isinstance(want, TList) else STR)
                t = Q.Empty(self.U.sort(TList(ety)))
                for it in items:
                    t = Q.Concat(t, Q.Unit(it.t))
                return SVal(t if items else Q.Empty(self.U.sort(TList(ety))), TList(ety))
            if isinstance(o, type) and issubclass(o, BaseException):
                raise OutsideSubset(f"exception class as value {o}")
            # opaque constant: a named constant of sort U
            qn = locate.qualname_of(o) or repr(o)
            return SVal(z3.Const("py!" + qn, self.U.U), OPAQUE)
        if isinstance(v, Empty):
            if want is None:
                raise OutsideSubset("empty literal of unknown type")
            return self.empty_of(want)
        if isinstance(v, STuple):
            if want is not None and isinstance(want, TList):
                items = [self.coerce(self.materialize(i, st, want.elem), want.elem, st) for i in v.items]
                t = Q.Empty(self.U.sort(want))
                for it in items:
                    t = Q.Concat(t, Q.Unit(it.t)) if True else t
                return SVal(t, want)
            if want is not None and isinstance(want, TTuple):
                items = [self.coerce(self.materialize(i, st, w), w, st) for i, w in zip(v.items, want.elems)]
                ty = want
            else:
                items = [self.materialize(i, st) for i in v.items]
                ty = TTuple([i.ty for i in items])
            dt = self.U.dt(ty)
            return SVal(dt.mktup(*[i.t for i in items]) if items else dt.mktup, ty)
        raise OutsideSubset(f"cannot materialize {v!r}")

    def empty_of(self, ty):
        if isinstance(ty, TOpt):
            ty = ty.inner
        if isinstance(ty, TList):
            return SVal(Q.Empty(self.U.sort(ty)), ty)
        if isinstance(ty, TSet):
            return SVal(z3.K(self.U.sort(ty.elem), z3.BoolVal(False)), ty)
        if isinstance(ty, TDict):
            dt = self.U.dt(ty)
            dv = z3.Const("dflt!" + _m(ty.v.key), self.U.sort(ty.v))
            return SVal(dt.mkdict(z3.K(self.U.sort(ty.k), z3.BoolVal(False)), z3.K(self.U.sort(ty.k), dv)), ty)
        raise OutsideSubset(f"empty of {ty}")

    def coerce(self, v, ty, st):
        """view value v at type ty (wrap Optional, type empties, box to opaque ...)"""
        if isinstance(v, (STuple, Empty, PyObj)):
            if isinstance(v, PyObj) and v.obj is None:
                v = SVal(None, NONE)
            else:
                inner = ty.inner if isinstance(ty, TOpt) else ty
                if inner is OPAQUE and isinstance(v, (STuple, Empty)):
                    if isinstance(v, Empty):
                        return SVal(z3.Const(f"empty_{v.kind}!U", self.U.U), OPAQUE)
                    v = self.materialize(v, st)
                else:
                    v = self.materialize(v, st, inner)
        if not isinstance(v, SVal):
            raise OutsideSubset(f"cannot coerce {v!r} to {ty}")
        if v.ty == ty:
            return v
        if isinstance(ty, TOpt):
            dt = self.U.dt(ty)
            if v.ty is NONE:
                return SVal(dt.none, ty)
            inner = self.coerce(v, ty.inner, st)
            return SVal(dt.some(inner.t), ty)
        if isinstance(v.ty, TOpt):
            # implicit unwrap (caller must have established non-None; otherwise use unwrap())
            dt = self.U.dt(v.ty)
            return self.coerce(SVal(dt.get(v.t), v.ty.inner), ty, st)
        if ty is OPAQUE:
            return self.box(v)
        if ty is BOOL:
            return SVal(self.truthy(v, st), BOOL)
        if v.ty is OPAQUE:
            return self.unbox(v, ty)
        if ty is INT and v.ty is BOOL:
            return SVal(z3.If(v.t, 1, 0), INT)
        if ty is BOOL:
            return SVal(self.truthy(v, st), BOOL)
        if isinstance(ty, TRef) and isinstance(v.ty, TRef):
            return SVal(v.t, ty)
        if isinstance(ty, TList) and isinstance(v.ty, TList) and self.U.sort(ty) == self.U.sort(v.ty):
            return SVal(v.t, ty)
        if isinstance(ty, TList) and isinstance(v.ty, TTuple) and all(e == ty.elem for e in v.ty.elems):
            dt = self.U.dt(v.ty)
            t = Q.Empty(self.U.sort(ty))
            for i in range(len(v.ty.elems)):
                t = Q.Concat(t, Q.Unit(dt.accessor(0, i)(v.t)))
            return SVal(t, ty)
        if isinstance(ty, TDict) and isinstance(v.ty, TDict) and self.U.sort(ty) == self.U.sort(v.ty):
            return SVal(v.t, ty)
        if v.ty is NONE:
            raise OutsideSubset(f"None where {ty} expected")
        raise OutsideSubset(f"cannot coerce {v.ty} to {ty}")

    def eq(self, a, b, st):
        """Python == as a z3 Bool"""
        if isinstance(a, PyObj) and isinstance(b, PyObj):
            return z3.BoolVal(a.obj == b.obj)
        if isinstance(a, STuple) and isinstance(b, STuple):
            if len(a.items) != len(b.items):
                return z3.BoolVal(False)
            return z3.And([self.eq(x, y, st) for x, y in zip(a.items, b.items)]) if a.items else z3.BoolVal(True)
        if isinstance(a, Empty) and isinstance(b, Empty):
            return z3.BoolVal(a.kind == b.kind)
        if isinstance(a, (Empty, STuple, PyObj)) and isinstance(b, SVal):
            a, b = b, a
        if isinstance(a, SVal) and isinstance(b, (Empty, STuple, PyObj)):
            if isinstance(b, PyObj) and b.obj is None:
                return self.is_none(a)
            if isinstance(b, Empty):
                ty = a.ty.inner if isinstance(a.ty, TOpt) else a.ty
                if ty is OPAQUE:
                    return a.t == self.coerce(b, OPAQUE, st).t
                if not ((b.kind == "list" and isinstance(ty, TList)) or (b.kind == "dict" and isinstance(ty, TDict))
                        or (b.kind == "set" and isinstance(ty, TSet))):
                    return z3.BoolVal(False)
            if isinstance(a.ty, TOpt):
                bb = self.coerce(b, a.ty, st)
            elif a.ty is OPAQUE:
                bb = self.box(self.materialize(b, st))
            else:
                bb = self.coerce(b, a.ty, st)
            return a.t == bb.t
        if not (isinstance(a, SVal) and isinstance(b, SVal)):
            if a is b:
                return z3.BoolVal(True)
            raise OutsideSubset(f"== between {a!r} and {b!r}")
        if a.ty is NONE or b.ty is NONE:
            if a.ty is NONE and b.ty is NONE:
                return z3.BoolVal(True)
            return self.is_none(b if a.ty is NONE else a)
        if a.ty == b.ty:
            return a.t == b.t
        if isinstance(a.ty, TOpt) and not isinstance(b.ty, TOpt):
            try:
                return a.t == self.coerce(b, a.ty, st).t
            except OutsideSubset:
                return z3.BoolVal(False)
        if isinstance(b.ty, TOpt) and not isinstance(a.ty, TOpt):
            return self.eq(b, a, st)
        if a.ty is OPAQUE:
            return a.t == self.box(b).t
        if b.ty is OPAQUE:
            return self.box(a).t == b.t
        if {a.ty, b.ty} == {INT, BOOL}:
            return self.coerce(a, INT, st).t == self.coerce(b, INT, st).t
        if self.U.sort(a.ty) == self.U.sort(b.ty):
            return a.t == b.t
        if isinstance(a.ty, TList) and isinstance(b.ty, TTuple) or isinstance(a.ty, TTuple) and isinstance(b.ty, TList):
            return z3.BoolVal(False)
        return z3.BoolVal(False)

    def is_none(self, v):
        if isinstance(v, PyObj):
            return z3.BoolVal(v.obj is None)
        if not isinstance(v, SVal):
            return z3.BoolVal(False)
        if v.ty is NONE:
            return z3.BoolVal(True)
        if isinstance(v.ty, TOpt):
            return self.U.dt(v.ty).is_none(v.t)
        if v.ty is OPAQUE:
            return v.t == z3.Const("None!U", self.U.U)
        return z3.BoolVal(False)

    # =============================================================================================
    # feasibility / forking
    def feasible(self, st, extra=None):
        """path pruning: `unsat` of the quantifier-free part of the path condition (a subset of the hypotheses, so pruning is
        sound); quantified facts make model search time out without ever pruning anything"""
        self.feas_checks += 1
        cs = [c for c in st.pc if not _has_quantifier(c)] + ([extra] if extra is not None else [])
        r = solve.check_sat([a for a in self.hierarchy_axioms() if not z3.is_quantifier(a)] + cs, 300)
        return r != "unsat"

    def axioms_now(self, wf=True):
        return list(self.axioms) + list(Q.AXIOMS) + (list(self.wf_axioms) if wf else []) + self.hierarchy_axioms()

    def satisfiable(self, constraints, ms=1500):
        """vacuity / cover guard: 'unsat' when the quantifier-free part of the constraints (with the ground class-hierarchy
        facts) is already contradictory, 'sat' when that part has a model, else 'unknown'.  Quantified hypotheses are left out:
        model search over them times out without deciding anything (recorded as an assumption of the guard)."""
        cs = [c for c in constraints if not _has_quantifier(c)]
        ground = [a for a in self.hierarchy_axioms() if not z3.is_quantifier(a)]
        self.assumptions.add("vacuity/cover guards are evaluated on the quantifier-free part of the path condition")
        return solve.check_sat(ground + cs, ms)

    def branch(self, st, c):
        c = z3.simplify(c)
        if z3.is_true(c):
            return [(True, st)]
        if z3.is_false(c):
            return [(False, st)]
        if st.nofork:
            raise OutsideSubset("branch on a symbolic condition inside a pure context")
        out = []
        for b, cc in ((True, c), (False, z3.simplify(z3.Not(c)))):
            if self.feasible(st, cc):
                s2 = st.copy()
                s2.assume(cc)
                s2.bmarks.append(len(s2.pc) - 1)
                out.append((b, s2))
        self.paths += max(0, len(out) - 1)
        if self.paths > MAX_PATHS:
            raise OutsideSubset("path explosion")
        return out

    def raise_exc(self, st, exc):
        st.status = ("raise", exc)
        self.sink.append(st)

    def guard(self, st, ok, exc_cls, note=""):
        """partial operation: continue on `ok`; the complement raises exc_cls"""
        if st.spec:
            return st
        if st.nofork:
            st.note(f"assumed defined inside pure context: {note}")
            self.assumptions.add("partial operations inside quantifier/comprehension bodies are assumed defined")
            return st
        res = None
        for b, s in self.branch(st, ok):
            if b:
                res = s
            else:
                s.note(f"raises {exc_cls.__name__}: {note}")
                self.raise_exc(s, self.new_exc(exc_cls, s))
        return res

    def unwrap(self, v, st, what=""):
        """Optional -> inner; the None case raises TypeError/AttributeError.  Returns (st, val) or (None, None)"""
        if isinstance(v, SVal) and isinstance(v.ty, TOpt):
            dt = self.U.dt(v.ty)
            st = self.guard(st, dt.is_some(v.t), TypeError, f"None used as {what}")
            if st is None:
                return None, None
            return st, SVal(dt.get(v.t), v.ty.inner, v.origin)
        if isinstance(v, SVal) and v.ty is NONE and not st.spec:
            s = st
            s.note(f"raises TypeError: None used as {what}")
            self.raise_exc(s, self.new_exc(TypeError, s))
            return None, None
        return st, v

    # =============================================================================================
    # heap
    def heap_arr(self, st, field, ty):
        key = (field, ty.key)
        if key not in st.heap:
            arr = z3.Const(f"H0_{field}_{_m(ty.key)}", z3.ArraySort(self.U.Ref, self.U.sort(ty)))
            st.heap[key] = arr
            self.wf_array(arr, ty)
            self.heap_birth_axioms(st, arr, ty, st.clock if st.old is not None else z3.IntVal(0), base=True)
        return st.heap[key]

    def heap_birth_axioms(self, st, arr, ty, clock, base=False):
        """objects reachable from a heap array version were allocated no later than `clock`"""
        r = z3.Const("r!hb", self.U.Ref)
        ax = None
        if isinstance(ty, TRef):
            ax = z3.ForAll([r], self.born(arr[r]) <= clock, patterns=[arr[r]])
        elif isinstance(ty, TOpt) and isinstance(ty.inner, TRef):
            dt = self.U.dt(ty)
            ax = z3.ForAll([r], self.born(dt.get(arr[r])) <= clock, patterns=[arr[r]])
        elif isinstance(ty, TList) and isinstance(ty.elem, TRef):
            i = z3.Int("i!hb")
            ax = z3.ForAll([r, i], self.born(Q.At(arr[r], i)) <= clock, patterns=[Q.At(arr[r], i)])
        if ax is not None:
            if base:
                if not any(ax.eq(a) for a in self.axioms):
                    self.axioms.append(ax)
            else:
                st.assume(ax)

    def read_field(self, st, obj, field):
        ty = self.U.field_ty(obj.ty.cls, field)
        if ty is None:
            return None
        arr = self.heap_arr(st, field, ty)
        return SVal(z3.Select(arr, obj.t), ty, LV("attr", obj, field))

    def write_field(self, st, obj, field, val):
        ty = self.U.field_ty(obj.ty.cls, field)
        if ty is None:
            raise OutsideSubset(f"store to undeclared field {obj.ty.cls}.{field}")
        val = self.coerce(val, ty, st)
        arr = self.heap_arr(st, field, ty)
        st.heap[(field, ty.key)] = z3.Store(arr, obj.t, val.t)

    def new_obj(self, st, cls, fields):
        ref = self.fresh(TRef(cls), "new_" + cls.split(".")[-1])
        st.clock = st.clock + 1
        st.assume(self.born(ref.t) == z3.simplify(st.clock))
        st.assume(self.cls_of(ref.t) == self.cls_id(cls))
        for f, v in fields.items():
            self.write_field(st, ref, f, v)
        return ref

    # lvalues --------------------------------------------------------------------------------------
    def read_lv(self, st, lv):
        if lv.kind == "var":
            if lv.a not in st.env:
                # a name that is not a local: a store through it mutates module-level (shared) state
                raise OutsideSubset(f"store through the non-local name {lv.a!r} (module-level state)")
            return st.env[lv.a]
        if lv.kind == "ghost":
            return st.ghost[lv.a]
        if lv.kind == "attr":
            return self.read_field(st, lv.a, lv.b)
        if lv.kind == "key":
            base = self.read_lv(st, lv.a)
            if isinstance(base, SVal) and isinstance(base.ty, TOpt):
                base = SVal(self.U.dt(base.ty).get(base.t), base.ty.inner)
            if isinstance(base.ty, TDict):
                dt = self.U.dt(base.ty)
                return SVal(z3.Select(dt.val(base.t), self.coerce(lv.b, base.ty.k, st).t), base.ty.v)
            if isinstance(base.ty, TList):
                return SVal(Q.At(base.t, self.coerce(lv.b, INT, st).t), base.ty.elem)
        raise OutsideSubset(f"read of lvalue {lv}")

    def assign_lv(self, st, lv, val):
        if lv.kind == "var":
            old = st.env.get(lv.a)
            if isinstance(old, SVal) and isinstance(val, SVal) and old.origin is not None and val.origin is None \
                    and _container(old.ty):
                val = SVal(val.t, val.ty, old.origin)
            st.env[lv.a] = val
            return
        if lv.kind == "ghost":
            st.ghost[lv.a] = self.coerce(val, st.ghost[lv.a].ty, st)
            return
        if lv.kind == "attr":
            self.write_field(st, lv.a, lv.b, val)
            return
        if lv.kind == "key":
            base = self.read_lv(st, lv.a)
            optty = None
            if isinstance(base.ty, TOpt):
                optty = base.ty
                base = SVal(self.U.dt(base.ty).get(base.t), base.ty.inner)
            if isinstance(base.ty, TDict):
                dt = self.U.dt(base.ty)
                k = self.coerce(lv.b, base.ty.k, st)
                v = self.coerce(val, base.ty.v, st)
                nb = SVal(dt.mkdict(z3.Store(dt.dom(base.t), k.t, z3.BoolVal(True)), z3.Store(dt.val(base.t), k.t, v.t)), base.ty)
            elif isinstance(base.ty, TList):
                i = self.coerce(lv.b, INT, st)
                v = self.coerce(val, base.ty.elem, st)
                nb = SVal(Q.Update(base.t, i.t, v.t), base.ty)
            else:
                raise OutsideSubset(f"subscript store into {base.ty}")
            if optty is not None:
                nb = self.coerce(nb, optty, st)
            self.assign_lv(st, lv.a, nb)
            return
        raise OutsideSubset(f"assignment to {lv}")

    def mutate(self, st, lv, recv, newval):
        """in-place mutation of a container value living at lv (write-through to the place it was read from)"""
        if lv is None:
            lv = recv.origin if isinstance(recv, SVal) else None
        if lv is not None and lv.kind == "var" and ("__stored__:" + str(lv.a)) in st.env:
            raise OutsideSubset("in-place mutation of a local container after it was stored elsewhere (aliasing the value model cannot follow)")
        if lv is None:
            return     # temporary value: mutation is unobservable
        if isinstance(newval, SVal) and isinstance(recv, SVal) and recv.origin is not None and lv.kind == "var":
            newval = SVal(newval.t, newval.ty, recv.origin)
        self.assign_lv(st, lv, newval)
        if lv.kind == "var" and isinstance(recv, SVal) and recv.origin is not None:
            self.assign_lv(st, recv.origin, newval)
            self.assumptions.add("a local bound to a container read from an object field is a write-through alias of that field")

    # =============================================================================================
    # expressions
    def ev(self, node, st):
        """generator of (state, value): normal continuations only; raising continuations go to self.sink"""
        m = getattr(self, "ev_" + type(node).__name__, None)
        if m is None:
            raise OutsideSubset(f"expression {type(node).__name__} at line {getattr(node, 'lineno', '?')}")
        yield from m(node, st)

    def ev1(self, node, st):
        """evaluate in a pure context: exactly one continuation, no state change"""
        st.nofork += 1
        try:
            outs = list(self.ev(node, st))
        finally:
            st.nofork -= 1
        if len(outs) != 1:
            raise OutsideSubset(f"pure evaluation produced {len(outs)} continuations")
        return outs[0][1]

    def ev_Constant(self, node, st):
        v = node.value
        if v is None:
            yield st, SVal(None, NONE)
        elif isinstance(v, (bool, int, str)):
            yield st, self.const(v)
        elif isinstance(v, bytes):
            yield st, SVal(z3.Const("bytes!" + v.hex(), self.U.Bytes), BYTES)
        elif v is Ellipsis:
            yield st, PyObj(Ellipsis)
        else:
            raise OutsideSubset(f"constant {v!r}")

    def lookup(self, name, st):
        for fr in reversed(st.bound):
            if name in fr:
                return fr[name]
        if name in st.env:
            return st.env[name]
        if name in st.ghost:
            g = st.ghost[name]
            return SVal(g.t, g.ty, LV("ghost", name))
        if name in self.reg.specs:
            return SpecFn(name)
        if name in SPEC_BUILTINS and (st.spec or name in ("ANY",)):
            return PyObj(SPEC_BUILTINS[name])
        g = st.env.get("__globals__")
        if g is not None and name in g.obj:
            return PyObj(g.obj[name])
        if hasattr(_bi, name):
            return PyObj(getattr(_bi, name))
        sg = getattr(self.reg, "spec_globals", {})
        if name in sg:
            return PyObj(sg[name])
        if name in SPEC_BUILTINS:
            return PyObj(SPEC_BUILTINS[name])
        raise OutsideSubset(f"unbound name {name}")

    def ev_Name(self, node, st):
        locs = st.env.get("__locals__")
        if locs is not None and node.id in locs.obj and node.id not in st.env and not any(node.id in f for f in st.bound) \
                and not (st.spec or st.nofork):
            # a local that is assigned somewhere in the function but not on this path: Python raises UnboundLocalError
            st.note(f"raises UnboundLocalError: {node.id}")
            self.raise_exc(st, self.new_exc(UnboundLocalError, st))
            return
        v = self.lookup(node.id, st)
        if isinstance(v, SVal) and v.origin is None and _container(v.ty) and node.id in st.env:
            pass
        yield st, v

    def ev_NamedExpr(self, node, st):
        for s, v in self.ev(node.value, st):
            if s.bound and (s.nofork or s.spec):
                s.bound[-1][node.target.id] = v
            else:
                self.assign_lv(s, LV("var", node.target.id), v)
            yield s, v

    def ev_Tuple(self, node, st):
        def rec(i, s, acc):
            if i == len(node.elts):
                yield s, STuple(acc)
                return
            e = node.elts[i]
            if isinstance(e, ast.Starred):
                for s2, v in self.ev(e.value, s):
                    if isinstance(v, STuple):
                        yield from rec(i + 1, s2, acc + v.items)
                    else:
                        raise OutsideSubset("starred non-literal in tuple")
                return
            for s2, v in self.ev(e, s):
                yield from rec(i + 1, s2, acc + [v])
        yield from rec(0, st, [])

    def ev_List(self, node, st):
        if not node.elts:
            yield st, Empty("list")
            return
        for s, tup in self.ev_Tuple(node, st):
            items = [self.materialize(x, s) for x in tup.items]
            ety = _join_tys([i.ty for i in items])
            t = None
            for it in items:
                u = Q.Unit(self.coerce(it, ety, s).t)
                t = u if t is None else Q.Concat(t, u)
            yield s, SVal(t, TList(ety))

    def ev_Set(self, node, st):
        for s, tup in self.ev_Tuple(node, st):
            items = [self.materialize(x, s) for x in tup.items]
            ety = _join_tys([i.ty for i in items])
            t = z3.K(self.U.sort(ety), z3.BoolVal(False))
            for it in items:
                t = z3.Store(t, self.coerce(it, ety, s).t, z3.BoolVal(True))
            yield s, SVal(t, TSet(ety))

    def ev_Dict(self, node, st):
        if not node.keys:
            yield st, Empty("dict")
            return
        if all(isinstance(k, ast.Constant) for k in node.keys) and all(isinstance(v, ast.Constant) for v in node.values):
            # a literal dict of constants: an opaque constant named after its content
            import hashlib
            h = hashlib.sha1(ast.dump(node).encode()).hexdigest()[:10]
            yield st, SVal(z3.Const("dictlit!" + h, self.U.U), OPAQUE)
            return
        raise OutsideSubset("dict display")

    def ev_JoinedStr(self, node, st):
        def rec(i, s, acc):
            if i == len(node.values):
                yield s, SVal(acc, STR)
                return
            p = node.values[i]
            if isinstance(p, ast.Constant):
                yield from rec(i + 1, s, Q.Concat(acc, z3.StringVal(p.value)) if acc is not None else z3.StringVal(p.value))
            else:
                if p.format_spec is not None or p.conversion not in (-1, 115):
                    raise OutsideSubset("f-string format spec")
                for s2, v in self.ev(p.value, s):
                    sv = self.to_str(v, s2)
                    yield from rec(i + 1, s2, Q.Concat(acc, sv.t) if acc is not None else sv.t)
        yield from rec(0, st, z3.StringVal("") if not node.values else None)

    def to_str(self, v, st):
        v = self.materialize(v, st) if not isinstance(v, SVal) else v
        if v.ty is STR:
            return v
        if v.ty is NONE:
            return self.const("None")
        s = self.U.sort(v.ty)
        return SVal(self.uf("str_of_" + _m(v.ty.key), [s], z3.StringSort())(v.t), STR)

    def ev_IfExp(self, node, st):
        if st.nofork or st.spec:
            c = self.truthy(self.ev1p(node.test, st), st)
            a = self.ev1p(node.body, st)
            b = self.ev1p(node.orelse, st)
            yield st, self.ite(c, a, b, st)
            return
        for s, c in self.ev(node.test, st):
            for br, s2 in self.branch(s, self.truthy(c, s)):
                yield from self.ev(node.body if br else node.orelse, s2)

    def ev1p(self, node, st):
        outs = list(self.ev(node, st))
        if len(outs) != 1:
            raise OutsideSubset(f"pure evaluation of `{ast.unparse(node)[:80]}` produced {len(outs)} continuations")
        return outs[0][1]

    def ite(self, c, a, b, st):
        c = z3.simplify(c)
        if z3.is_true(c):
            return a
        if z3.is_false(c):
            return b
        if isinstance(a, SVal) and isinstance(b, SVal) and a.ty == b.ty:
            if a.ty is NONE:
                return a
            return SVal(z3.If(c, a.t, b.t), a.ty)
        # unify
        if isinstance(a, SVal) and a.ty is not NONE and not isinstance(a.ty, TOpt) and isinstance(b, SVal) and b.ty is NONE:
            ty = TOpt(a.ty)
        elif isinstance(b, SVal) and b.ty is not NONE and not isinstance(b.ty, TOpt) and isinstance(a, SVal) and a.ty is NONE:
            ty = TOpt(b.ty)
        elif isinstance(a, SVal) and a.ty is not NONE:
            ty = a.ty
        elif isinstance(b, SVal) and b.ty is not NONE:
            ty = b.ty
        else:
            raise OutsideSubset("conditional expression with untyped arms")
        return SVal(z3.If(c, self.coerce(a, ty, st).t, self.coerce(b, ty, st).t), ty)

    def ev_BoolOp(self, node, st):
        is_and = isinstance(node.op, ast.And)
        if st.nofork or st.spec:
            vals = []
            # short-circuit context is irrelevant for total (spec) evaluation; values are merged with ITE
            for e in node.values:
                vals.append(self.ev1p(e, st))
            if any(isinstance(v, SVal) and v.ty is BOOL for v in vals):
                # logical use (at least one operand is a bool): the value is the truthiness
                ts = [self.truthy(v, st) for v in vals]
                yield st, SVal(z3.And(ts) if is_and else z3.Or(ts), BOOL)
                return
            res = vals[-1]
            for v in reversed(vals[:-1]):
                c = self.truthy(v, st)
                res = self.ite(c, res, v, st) if is_and else self.ite(c, v, res, st)
            yield st, res
            return

        def rec(i, s):
            for s2, v in self.ev(node.values[i], s):
                if i == len(node.values) - 1:
                    yield s2, v
                    continue
                for br, s3 in self.branch(s2, self.truthy(v, s2)):
                    if br == is_and:
                        yield from rec(i + 1, s3)
                    else:
                        yield s3, v
        yield from rec(0, st)

    def ev_UnaryOp(self, node, st):
        for s, v in self.ev(node.operand, st):
            if isinstance(node.op, ast.Not):
                yield s, SVal(z3.Not(self.truthy(v, s)), BOOL)
            elif isinstance(node.op, ast.USub):
                v = self.coerce(v, INT, s)
                yield s, SVal(z3.simplify(-v.t), INT)
            else:
                raise OutsideSubset("unary op")

    def ev_BinOp(self, node, st):
        for s, a in self.ev(node.left, st):
            for s2, b in self.ev(node.right, s):
                yield from self.binop(node.op, a, b, s2, node)

    def binop(self, op, a, b, st, node=None):
        if isinstance(a, PyObj) and isinstance(b, PyObj) and not st.spec:
            try:
                import operator
                f = {ast.Add: operator.add, ast.Sub: operator.sub, ast.BitOr: operator.or_}[type(op)]
                yield st, PyObj(f(a.obj, b.obj))
                return
            except Exception:
                pass
        if isinstance(op, ast.Add):
            if isinstance(a, Empty) and isinstance(b, SVal):
                yield st, b
                return
            if isinstance(b, Empty) and isinstance(a, SVal):
                if isinstance(a.ty, TOpt):
                    st, a = self.unwrap(a, st, "operand of +")
                    if st is None:
                        return
                yield st, SVal(a.t, a.ty)
                return
            if isinstance(a, Empty) and isinstance(b, Empty):
                yield st, Empty(a.kind)
                return
            if isinstance(a, STuple) and isinstance(b, STuple):
                yield st, STuple(a.items + b.items)
                return
        a = self.materialize(a, st) if not isinstance(a, SVal) else a
        if isinstance(b, (STuple, PyObj, Empty)):
            want = a.ty.inner if isinstance(a.ty, TOpt) else a.ty
            b = self.materialize(b, st, want if _container(want) else None)
        if isinstance(a.ty, TOpt) or a.ty is NONE:
            st, a = self.unwrap(a, st, "left operand")
            if st is None:
                return
        if isinstance(b.ty, TOpt) or b.ty is NONE:
            st, b = self.unwrap(b, st, "right operand")
            if st is None:
                return
        ta, tb = a.ty, b.ty
        if isinstance(op, (ast.Add, ast.Sub, ast.Mult)) and ta in (INT, BOOL) and tb in (INT, BOOL):
            x, y = self.coerce(a, INT, st).t, self.coerce(b, INT, st).t
            yield st, SVal({ast.Add: x + y, ast.Sub: x - y, ast.Mult: x * y}[type(op)], INT)
            return
        if isinstance(op, ast.Add) and ta is STR and tb is STR:
            yield st, SVal(Q.Concat(a.t, b.t), STR)
            return
        if isinstance(op, ast.Add) and isinstance(ta, TList) and isinstance(tb, TList):
            if self.U.sort(ta) != self.U.sort(tb):
                raise OutsideSubset(f"list + list of different element sorts {ta} {tb}")
            yield st, SVal(Q.Concat(a.t, b.t), ta)
            return
        if isinstance(op, ast.BitOr) and isinstance(ta, TSet) and isinstance(tb, TSet):
            yield st, SVal(self.set_union(a.t, b.t, ta), ta)
            return
        if isinstance(op, ast.Sub) and isinstance(ta, TSet) and isinstance(tb, TSet):
            yield st, SVal(self.set_diff(a.t, b.t, ta), ta)
            return
        if isinstance(op, ast.BitAnd) and isinstance(ta, TSet) and isinstance(tb, TSet):
            yield st, SVal(self.set_inter(a.t, b.t, ta), ta)
            return
        if isinstance(op, ast.BitOr) and isinstance(ta, TDict) and isinstance(tb, TDict) and ta == tb:
            if getattr(ta, "cls", None) is not None:
                # dict subclass: `a | b` dispatches to type(a).__or__ found on the real MRO
                from .builtins_ import call_method
                yield from call_method(self, BoundM(a, "__or__", None), [b], {}, st, node)
                return
            yield st, self.dict_union(a, b)
            return
        if isinstance(op, ast.BitXor) and ta is BOOL and tb is BOOL:
            yield st, SVal(z3.Xor(a.t, b.t), BOOL)
            return
        if isinstance(op, ast.Div) and ta is OPAQUE:
            f = self.uf("path_join", [self.U.U, self.U.U], self.U.U)
            yield st, SVal(f(a.t, self.coerce(b, OPAQUE, st).t), OPAQUE)
            return
        if ta is OPAQUE or tb is OPAQUE:
            f = self.uf("binop_" + type(op).__name__, [self.U.U, self.U.U], self.U.U)
            yield st, SVal(f(self.coerce(a, OPAQUE, st).t, self.coerce(b, OPAQUE, st).t), OPAQUE)
            return
        if isinstance(op, ast.Add) and (isinstance(ta, TList) != isinstance(tb, TList)) and not st.spec:
            st.note("raises TypeError: list + non-list")
            self.raise_exc(st, self.new_exc(TypeError, st))
            return
        raise OutsideSubset(f"binary {type(op).__name__} on {ta}, {tb}")

    # sets / dicts algebra -----------------------------------------------------------------------
    def set_union(self, a, b, ty):
        return z3.SetUnion(a, b)

    def set_diff(self, a, b, ty):
        return z3.SetDifference(a, b)

    def set_inter(self, a, b, ty):
        return z3.SetIntersect(a, b)

    def dict_union(self, a, b):
        """a | b : keys of both, b wins.  An uninterpreted function with pointwise axioms triggered on select (lambda-defined
        arrays make z3's array theory incomplete)"""
        dt = self.U.dt(a.ty)
        srt = self.U.sort(a.ty)
        key = "dunion!" + _m(a.ty.key)
        first = not any(k[0] == key for k in self.ufs)
        f = self.uf(key, [srt, srt], srt)
        if first:
            x, y = z3.Const("x!du", srt), z3.Const("y!du", srt)
            k = z3.Const("k!du", self.U.sort(a.ty.k))
            u = f(x, y)
            self.axioms.append(z3.ForAll([x, y], dt.dom(u) == z3.SetUnion(dt.dom(x), dt.dom(y)), patterns=[u]))
            self.axioms.append(z3.ForAll([x, y, k], z3.Select(dt.val(u), k) == z3.If(z3.Select(dt.dom(y), k), z3.Select(dt.val(y), k), z3.Select(dt.val(x), k)),
                                         patterns=[z3.Select(dt.val(u), k)]))
        return SVal(f(a.t, b.t), a.ty)

    def dict_keys(self, d):
        dt = self.U.dt(d.ty)
        return SVal(dt.dom(d.t), TSet(d.ty.k))

    # comparisons --------------------------------------------------------------------------------
    def ev_Compare(self, node, st):
        def rec(i, s, left, acc):
            if i == len(node.ops):
                yield s, SVal(z3.And(acc) if len(acc) > 1 else acc[0], BOOL)
                return
            for s2, right in self.ev(node.comparators[i], s):
                for s3, c in self.compare(node.ops[i], left, right, s2):
                    if i < len(node.ops) - 1 and not (s3.nofork or s3.spec):
                        # chained comparison short-circuits; operands here are effect-free so merging is exact
                        pass
                    yield from rec(i + 1, s3, right, acc + [c])
        for s, left in self.ev(node.left, st):
            yield from rec(0, s, left, [])

    def compare(self, op, a, b, st):
        if isinstance(op, (ast.Eq, ast.NotEq)):
            c = self.eq(a, b, st)
            yield st, (c if isinstance(op, ast.Eq) else z3.Not(c))
            return
        if isinstance(op, (ast.Is, ast.IsNot)):
            if (isinstance(b, SVal) and b.ty is NONE) or (isinstance(b, PyObj) and b.obj is None):
                c = self.is_none(a)
            elif (isinstance(a, SVal) and a.ty is NONE) or (isinstance(a, PyObj) and a.obj is None):
                c = self.is_none(b)
            elif isinstance(a, PyObj) and isinstance(b, PyObj):
                c = z3.BoolVal(a.obj is b.obj)
            elif isinstance(a, SVal) and isinstance(b, SVal) and (isinstance(a.ty, TRef) or a.ty is OPAQUE or a.ty is BOOL):
                c = self.eq(a, b, st)
            else:
                raise OutsideSubset("`is` on values")
            yield st, (c if isinstance(op, ast.Is) else z3.Not(c))
            return
        if isinstance(op, (ast.In, ast.NotIn)):
            c = self.contains(b, a, st)
            yield st, (c if isinstance(op, ast.In) else z3.Not(c))
            return
        a = self.materialize(a, st) if not isinstance(a, SVal) else a
        b = self.materialize(b, st) if not isinstance(b, SVal) else b
        if isinstance(a.ty, TOpt) or a.ty is NONE:
            st, a = self.unwrap(a, st, "comparison operand")
            if st is None:
                return
        if isinstance(b.ty, TOpt) or b.ty is NONE:
            st, b = self.unwrap(b, st, "comparison operand")
            if st is None:
                return
        if a.ty in (INT, BOOL) and b.ty in (INT, BOOL):
            x, y = self.coerce(a, INT, st).t, self.coerce(b, INT, st).t
            yield st, {ast.Lt: x < y, ast.LtE: x <= y, ast.Gt: x > y, ast.GtE: x >= y}[type(op)]
            return
        if a.ty is OPAQUE or b.ty is OPAQUE:
            f = self.uf("cmp_" + type(op).__name__, [self.U.U, self.U.U], z3.BoolSort())
            yield st, f(self.coerce(a, OPAQUE, st).t, self.coerce(b, OPAQUE, st).t)
            return
        if a.ty is STR and b.ty is STR:
            f = self.uf("strcmp_" + type(op).__name__, [z3.StringSort(), z3.StringSort()], z3.BoolSort())
            yield st, f(a.t, b.t)
            return
        if isinstance(a.ty, TTuple) and a.ty == b.ty and all(e is INT for e in a.ty.elems):
            dt = self.U.dt(a.ty)
            xs = [dt.accessor(0, i)(a.t) for i in range(len(a.ty.elems))]
            ys = [dt.accessor(0, i)(b.t) for i in range(len(a.ty.elems))]
            lt = z3.BoolVal(False)
            for x, y in reversed(list(zip(xs, ys))):
                lt = z3.Or(x < y, z3.And(x == y, lt))
            eqv = z3.And([x == y for x, y in zip(xs, ys)])
            yield st, {ast.Lt: lt, ast.LtE: z3.Or(lt, eqv), ast.Gt: z3.Not(z3.Or(lt, eqv)), ast.GtE: z3.Not(lt)}[type(op)]
            return
        raise OutsideSubset(f"comparison {type(op).__name__} on {a.ty}, {b.ty}")

    def seq_member(self, seq, x):
        """x in seq, as an index quantifier (z3 relates seq.contains and seq.nth poorly)"""
        return Q.Member(seq, x, self.fresh_name("mi"))

    def str_contains(self, s, sub):
        """substring test: evaluated when both are literals, otherwise an uninterpreted predicate (z3's string theory is
        kept out of quantified obligations)"""
        if z3.is_string_value(s) and z3.is_string_value(sub):
            return z3.BoolVal(sub.as_string() in s.as_string())
        return self.uf("str_contains", [z3.StringSort(), z3.StringSort()], z3.BoolSort())(s, sub)

    def contains(self, container, x, st):
        if isinstance(container, STuple):
            return z3.Or([self.eq(x, it, st) for it in container.items]) if container.items else z3.BoolVal(False)
        if isinstance(container, Empty):
            return z3.BoolVal(False)
        if isinstance(container, PyObj):
            o = container.obj
            if isinstance(o, (list, tuple, set, frozenset, dict)):
                items = list(o)
                return z3.Or([self.eq(x, PyObj(i), st) for i in items]) if items else z3.BoolVal(False)
            if isinstance(o, str):
                container = self.const(o)
            else:
                raise OutsideSubset(f"`in` on {o!r}")
        c = container
        if isinstance(c.ty, TOpt):
            c = SVal(self.U.dt(c.ty).get(c.t), c.ty.inner)
        ty = c.ty
        if isinstance(ty, TList):
            xv = self.coerce(x, ty.elem, st)
            fm = getattr(self, "flatmaps", {}).get(c.t.get_id())
            if fm is not None:
                return z3.substitute(fm[1], (fm[0], xv.t))
            return self.seq_member(c.t, xv.t)
        if isinstance(ty, TSet):
            return z3.Select(c.t, self.coerce(x, ty.elem, st).t)
        if isinstance(ty, TDict):
            return z3.Select(self.U.dt(ty).dom(c.t), self.coerce(x, ty.k, st).t)
        if ty is STR:
            return self.str_contains(c.t, self.coerce(x, STR, st).t)
        if isinstance(ty, TTuple):
            dt = self.U.dt(ty)
            return z3.Or([self.eq(x, SVal(dt.accessor(0, i)(c.t), e), st) for i, e in enumerate(ty.elems)])
        if ty is OPAQUE:
            f = self.uf("contains", [self.U.U, self.U.U], z3.BoolSort())
            return f(c.t, self.coerce(x, OPAQUE, st).t)
        raise OutsideSubset(f"`in` on {ty}")

    # attribute / subscript -----------------------------------------------------------------------
    def ev_Attribute(self, node, st):
        for s, base in self.ev(node.value, st):
            for s2, v in self.getattr_(base, node.attr, s, node):
                if isinstance(v, BoundM) and v.lv is None and isinstance(node.value, ast.Name) and node.value.id in s2.env \
                        and not any(node.value.id in f for f in s2.bound):
                    v = BoundM(v.recv, v.name, LV("var", node.value.id))
                yield s2, v

    def getattr_(self, base, attr, st, node=None):
        if isinstance(base, PyObj):
            o = base.obj
            if type(o).__name__ == "SuperProxy":
                yield st, BoundM(base, attr)
                return
            if inspect.ismodule(o) and f"{o.__name__}.{attr}" in getattr(self.reg, "opaque_globals", ()):
                yield st, SVal(z3.Const(f"py!{o.__name__}.{attr}", self.U.U), OPAQUE)
                return
            try:
                yield st, PyObj(getattr(o, attr))
            except AttributeError:
                raise OutsideSubset(f"attribute {attr} of {o!r}")
            return
        if isinstance(base, (STuple, Empty, Closure)) or type(base).__name__ == "FileHandle":
            yield st, BoundM(base, attr)
            return
        if isinstance(base, SVal) and (isinstance(base.ty, TOpt) or base.ty is NONE):
            if st.spec:
                base = SVal(self.U.dt(base.ty).get(base.t), base.ty.inner, base.origin)
            else:
                dt = self.U.dt(base.ty) if isinstance(base.ty, TOpt) else None
                ok = dt.is_some(base.t) if dt is not None else z3.BoolVal(False)
                st = self.guard(st, ok, AttributeError, f"None.{attr}")
                if st is None:
                    return
                base = SVal(dt.get(base.t), base.ty.inner, base.origin)
        ty = base.ty
        if isinstance(ty, TRef):
            v = self.read_field(st, base, attr)
            if v is not None:
                yield st, v
                return
            rec = self.U.record_of(ty.cls)
            pc = rec.pyclass if rec else None
            if pc is not None:
                raw = None
                for k in pc.__mro__:
                    if attr in k.__dict__:
                        raw = k.__dict__[attr]
                        break
                if raw is not None:
                    fn, kind, dropped = locate.unwrap(raw)
                    if kind == "property":
                        pqn = f"{k.__module__}.{k.__qualname__}.{attr}"
                        pc_ = self.reg.contracts.get(pqn)
                        if pc_ is not None and not pc_.inline:
                            from .calls import apply_contract
                            yield from apply_contract(self, pc_, fn, [base], {}, st, node)
                        else:
                            yield from self.call_repo(fn, pqn, [base], {}, st, dropped, node)
                        return
                    if callable(fn):
                        yield st, BoundM(base, attr, base.origin)
                        return
                    if isinstance(raw, (int, str, bool)) or raw is None:
                        yield st, PyObj(raw)
                        return
            raise OutsideSubset(f"attribute {attr} of {ty.cls} is neither a declared field nor a method")
        if isinstance(ty, TVal):
            fields = self.U.all_fields(ty.cls)
            if attr in fields:
                dt = self.U.dt(ty)
                idx = list(fields).index(attr)
                yield st, SVal(dt.accessor(0, idx)(base.t), fields[attr])
                return
            yield st, BoundM(base, attr)
            return
        if ty is OPAQUE:
            decl = self.reg.opaque_attrs.get(attr)
            if decl == "method" or f"opaque.{attr}" in self.reg.contracts or (decl is None and attr in OPAQUE_METHODS):
                yield st, BoundM(base, attr)
                return
            rty = self.U.parse(decl) if decl else OPAQUE
            f = self.uf("attr_" + attr, [self.U.U], self.U.sort(rty))
            yield st, SVal(f(base.t), rty)
            return
        if ty is EXC:
            yield st, BoundM(base, attr)
            return
        yield st, BoundM(base, attr, base.origin)

    def ev_Subscript(self, node, st):
        for s, base in self.ev(node.value, st):
            if isinstance(node.slice, ast.Slice):
                yield from self.slice_(base, node.slice, s)
                continue
            for s2, idx in self.ev(node.slice, s):
                yield from self.index(base, idx, s2, node)

    def slice_(self, base, sl, st):
        if sl.step is not None:
            raise OutsideSubset("slice step")

        def evopt(e, s):
            if e is None:
                yield s, None
            else:
                for s2, v in self.ev(e, s):
                    yield s2, self.coerce(v, INT, s2)
        for s, lo in evopt(sl.lower, st):
            for s2, hi in evopt(sl.upper, s):
                b = base
                if isinstance(b, STuple):
                    if all(x is None or z3.is_int_value(x.t) for x in (lo, hi)):
                        l = lo.t.as_long() if lo is not None else None
                        h = hi.t.as_long() if hi is not None else None
                        yield s2, STuple(b.items[l:h])
                        continue
                    raise OutsideSubset("symbolic slice of tuple")
                if isinstance(b, PyObj):
                    b = self.materialize(b, s2)
                if isinstance(b.ty, TOpt):
                    s2, b = self.unwrap(b, s2, "slice")
                    if s2 is None:
                        continue
                if b.ty is OPAQUE:
                    f = self.uf("slice_U", [self.U.U, z3.IntSort(), z3.IntSort()], self.U.U)
                    yield s2, SVal(f(b.t, lo.t if lo is not None else z3.IntVal(0), hi.t if hi is not None else z3.IntVal(-1)), OPAQUE)
                    continue
                n = Q.Length(b.t)

                def norm(x, dflt):
                    if x is None:
                        return dflt
                    t = x.t
                    if z3.is_int_value(t):
                        return (n + t) if t.as_long() < 0 else t
                    return z3.If(t < 0, n + t, t)
                l = norm(lo, z3.IntVal(0))
                h = norm(hi, n)
                clamp = lambda e: z3.If(e < 0, 0, z3.If(e > n, n, e))
                l, h = clamp(l), clamp(h)
                if b.ty is OPAQUE:
                    f = self.uf("slice_U", [self.U.U, z3.IntSort(), z3.IntSort()], self.U.U)
                    yield s2, SVal(f(b.t, lo.t if lo is not None else z3.IntVal(0), hi.t if hi is not None else z3.IntVal(-1)), OPAQUE)
                    continue
                if isinstance(b.ty, TList) or b.ty is STR:
                    yield s2, SVal(z3.simplify(Q.Extract(b.t, l, z3.If(h - l < 0, 0, h - l))), b.ty)
                else:
                    raise OutsideSubset(f"slice of {b.ty}")

    def index(self, base, idx, st, node=None):
        if isinstance(base, Empty):
            if st.spec or st.nofork:
                # subscript of an (untyped) empty literal only occurs under a vacuous guard in specifications
                yield st, self.fresh(OPAQUE, "empty_item")
                return
            st.note("raises IndexError/KeyError: subscript of an empty literal")
            self.raise_exc(st, self.new_exc(LookupError, st, exact=False))
            return
        if isinstance(base, STuple):
            i = self.coerce(idx, INT, st)
            if z3.is_int_value(i.t):
                yield st, base.items[i.t.as_long()]
                return
            base = self.materialize(base, st, TList(_join_tys([self.materialize(x, st).ty for x in base.items])))
        if isinstance(base, PyObj):
            if isinstance(base.obj, (list, tuple, dict)) and isinstance(idx, (PyObj,)):
                yield st, PyObj(base.obj[idx.obj])
                return
            if isinstance(base.obj, dict) and isinstance(idx, SVal) and idx.ty is STR and z3.is_string_value(idx.t):
                yield st, PyObj(base.obj[idx.t.as_string()])
                return
            if isinstance(base.obj, (list, tuple)) and isinstance(idx, SVal) and z3.is_int_value(idx.t):
                yield st, PyObj(base.obj[idx.t.as_long()])
                return
            base = self.materialize(base, st)
        if isinstance(base.ty, TOpt) or base.ty is NONE:
            st, base = self.unwrap(base, st, "subscript")
            if st is None:
                return
        ty = base.ty
        lvb = base.origin
        if isinstance(ty, TList) or ty is STR:
            i = self.coerce(idx, INT, st)
            n = Q.Length(base.t)
            it = i.t
            if z3.is_int_value(it) and it.as_long() < 0:
                it = n + it
                ok = it >= 0
            elif z3.is_int_value(it):
                ok = it < n
            elif st.spec or st.nofork:
                # pure contexts index with non-negative terms (range / enumerate / quantifier indices): keeping the index
                # term free of if-then-else keeps it usable as a quantifier trigger
                ok = z3.And(it >= 0, it < n)
            else:
                ok = z3.And(it >= -n, it < n)
                it = z3.If(it < 0, n + it, it)
            st = self.guard(st, ok, IndexError, "sequence index out of range")
            if st is None:
                return
            if ty is STR:
                yield st, SVal(z3.SubString(base.t, it, 1), STR)
            else:
                yield st, SVal(Q.At(base.t, it), ty.elem, LV("key", lvb, SVal(it, INT)) if lvb is not None else None)
            return
        if isinstance(ty, TDict):
            k = self.coerce(idx, ty.k, st)
            dt = self.U.dt(ty)
            if not getattr(ty, "default", False):
                st = self.guard(st, z3.Select(dt.dom(base.t), k.t), KeyError, "missing dict key")
                if st is None:
                    return
            yield st, SVal(z3.Select(dt.val(base.t), k.t), ty.v, LV("key", lvb, k) if lvb is not None else None)
            return
        if isinstance(ty, TMap):
            k = self.coerce(idx, ty.k, st)
            yield st, SVal(z3.Select(base.t, k.t), ty.v)
            return
        if isinstance(ty, TTuple):
            i = self.coerce(idx, INT, st)
            if not z3.is_int_value(i.t):
                raise OutsideSubset("symbolic index into tuple")
            j = i.t.as_long()
            dt = self.U.dt(ty)
            yield st, SVal(dt.accessor(0, j)(base.t), ty.elems[j])
            return
        if ty is OPAQUE:
            k = self.coerce(idx, OPAQUE, st)
            if not st.spec and not st.nofork:
                ok = self.uf("has_item", [self.U.U, self.U.U], z3.BoolSort())(base.t, k.t)
                e_cls = self.uf("item_err_is_key", [self.U.U], z3.BoolSort())(base.t)
                for br, s2 in self.branch(st, ok):
                    if br:
                        yield s2, SVal(self.uf("item", [self.U.U, self.U.U], self.U.U)(base.t, k.t), OPAQUE)
                    else:
                        for br2, s3 in self.branch(s2, e_cls):
                            s3.note("raises KeyError/IndexError/TypeError: opaque subscript")
                            self.raise_exc(s3, self.new_exc(KeyError if br2 else LookupErrorOrType, s3, exact=br2))
                return
            yield st, SVal(self.uf("item", [self.U.U, self.U.U], self.U.U)(base.t, k.t), OPAQUE)
            return
        raise OutsideSubset(f"subscript of {ty}")

    # lambda, comprehension -------------------------------------------------------------------------
    def ev_Lambda(self, node, st):
        yield st, Closure(node, dict(st.env), None)

    def ev_GeneratorExp(self, node, st):
        yield st, IterView("gen", node, [dict(f) for f in st.bound])

    def ev_ListComp(self, node, st):
        from .comp import list_comp
        yield from list_comp(self, node, st)

    def ev_SetComp(self, node, st):
        from .comp import set_comp
        yield from set_comp(self, node, st)

    def ev_DictComp(self, node, st):
        from .comp import dict_comp
        yield from dict_comp(self, node, st)

    def ev_Starred(self, node, st):
        raise OutsideSubset("starred expression")

    # calls ---------------------------------------------------------------------------------------
    def ev_Call(self, node, st):
        from .calls import ev_call
        yield from ev_call(self, node, st)

    def call_repo(self, fn, qualname, args, kwargs, st, dropped=(), node=None):
        from .calls import call_repo
        yield from call_repo(self, fn, qualname, args, kwargs, st, dropped, node)

    # =============================================================================================
    # obligations
    def oblige(self, st, kind, goal, label=None, lineno=None, func=None):
        if self.suppress:
            return
        func = func or self.cur
        oid = f"{func}/{kind}" + (f"[{label}]" if label else "") + (f"@L{lineno}" if lineno else "")
        self.obls.append(Obligation(oid, func, kind, st.pc, goal, st.trace_notes, label, lineno))


class LookupErrorOrType(LookupError):
    """stand-in class for 'IndexError or TypeError' raised by an opaque subscript"""


OPAQUE_METHODS = {"get", "keys", "values", "items", "relative_to", "read_bytes", "read_text", "write_bytes", "write_text",
                  "joinpath", "exists", "is_file", "is_symlink", "rglob", "lower", "upper", "split", "strip", "with_changes",
                  "absolute", "resolve", "decode", "encode", "splitlines", "startswith", "endswith", "measure", "append",
                  "extend", "deep_clone", "transform", "visit", "getLineNumber", "getColumnNumber", "load", "select"}


_qcache = {}


def _has_quantifier(e):
    i = e.get_id()
    if i in _qcache:
        return _qcache[i]
    todo = [e]
    seen = set()
    res = False
    n = 0
    while todo:
        x = todo.pop()
        j = x.get_id()
        if j in seen:
            continue
        seen.add(j)
        n += 1
        if z3.is_quantifier(x) or n > 3000:
            res = True
            break
        todo.extend(x.children())
    _qcache[i] = res
    return res


def _m(s):
    return "".join(c if c.isalnum() else "_" for c in s)


def _container(ty):
    if isinstance(ty, TOpt):
        ty = ty.inner
    return isinstance(ty, (TList, TSet, TDict))


def _join_tys(tys):
    tys = list(tys)
    if not tys:
        raise OutsideSubset("no element types")
    t0 = tys[0]
    for t in tys[1:]:
        if t == t0:
            continue
        if isinstance(t0, TRef) and isinstance(t, TRef):
            continue
        if t is NONE and not isinstance(t0, TOpt):
            t0 = TOpt(t0)
            continue
        if isinstance(t0, TOpt) and (t is NONE or t == t0.inner):
            continue
        if t0 is NONE:
            t0 = opt(t)
            continue
        return OPAQUE
    return t0


def _spec_implies(a, b):
    raise RuntimeError


SPEC_BUILTINS = {"val_of": "val_of", "list_set": "list_set", "utf8": "utf8", "decode_utf8": "decode_utf8", "decodable": "decodable", "raised_by": "raised_by", "exc_code": "exc_code", "implies": "implies", "old": "old", "ANY": "ANY", "store": "store", "fresh_obj": "fresh_obj",
                 "raised": "raised", "iff": "iff", "unchanged": "unchanged", "ite": "ite", "seq_index_of": "seq_index_of",
                 "distinct": "distinct", "field_unchanged_except": "field_unchanged_except", "none": "none",
                 "some": "some", "typed_empty": "typed_empty", "dom": "dom", "lookup": "lookup", "sorted_of": "sorted_of",
                 "subset": "subset", "count": "count"}
