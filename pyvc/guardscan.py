"""Selection typestate of transformer callbacks (G-obligations).

Property C13 (line includes/excludes are honoured) and C06 (a SAST fix lands only on reported findings) need, for EVERY
transformer class, that a change is reported only for a node the selection filters accepted.  The filters are three methods
of UtilsMixin (under contract in contracts/visitor.py):

    node_is_selected(n)                        -> result filter AND line filter
    filter_by_result(n)                        -> result filter
    filter_by_path_includes_or_excludes(pos)   -> line filter

and the events are the calls that record a change: report_change, add_change, add_change_from_position,
report_change_for_line, `codemod_changes.append/extend`, `changes_in_file.append/extend`.

The obligation `on every path to an event the required filter(s) returned True` is discharged here by a path-sensitive
abstract interpretation of the REAL method bodies (read from /repo on every run, helper methods resolved through the real
MRO and inlined): the abstract state is the pair of flags (res_ok, line_ok) plus the flags carried by local variables that
hold a filter's verdict.  Conditions set flags on the branch where they guarantee the filter returned True.  Everything the
interpreter does not understand leaves the flags unchanged (over-approximation of the unguarded paths): a site it cannot
justify is reported as an unmet obligation, never silently accepted.  `on_result_found` starts with both flags (callback
contract: LibcstResultTransformer._new_or_updated_node calls it only under node_is_selected - that method is itself scanned).
A change list copied from a sub-visitor (`codemod_changes.extend(visitor.changes_in_file)`) transfers the obligation to the
sub-visitor's class, which is scanned like every other class of the two packages.
"""
from __future__ import annotations

import ast
import importlib
import inspect
import os

BOTH = frozenset({"res", "line"})
GUARDS = {"node_is_selected": BOTH, "filter_by_result": frozenset({"res"}), "filter_by_path_includes_or_excludes": frozenset({"line"})}
EVENT_METHODS = {"report_change", "add_change", "add_change_from_position", "report_change_for_line"}
EVENT_LISTS = {"codemod_changes", "changes_in_file"}
# methods whose body IS the reporting machinery (their callers carry the obligation)
MACHINERY = {("codemodder.codemods.libcst_transformer", "LibcstResultTransformer", m) for m in
             ("add_change", "add_change_from_position", "report_change", "report_change_for_line")}


def _falsy_literal(e):
    if isinstance(e, ast.Constant) and not e.value:
        return True
    if isinstance(e, (ast.List, ast.Tuple, ast.Set)) and not e.elts:
        return True
    if isinstance(e, ast.Dict) and not e.keys:
        return True
    if isinstance(e, ast.Call) and isinstance(e.func, ast.Name) and e.func.id in ("list", "dict", "set", "tuple") and not e.args and not e.keywords:
        return True
    return False


def _meet_env(envs):
    """variables: `truthy => flags`; at a join the guarantee is the intersection"""
    envs = [e for e in envs if e is not None]
    if not envs:
        return {}
    keys = set(envs[0])
    for e in envs[1:]:
        keys &= set(e)
    return {k: frozenset.intersection(*[e[k] for e in envs]) for k in keys}


class Site:
    def __init__(self, file, line, cls, method, what, missing, chain):
        self.file, self.line, self.cls, self.method, self.what, self.missing, self.chain = file, line, cls, method, what, missing, chain


class Scanner:
    def __init__(self, src_root):
        self.src_root = src_root
        self.sites = {}          # (file, line, cls) -> Site or None (None: justified on every path seen)
        self.trees = {}
        self.summaries = {}
        self.attr_writes = {}        # attribute name -> flags at each write outside __init__ (this pass)
        self.prev_attr_writes = {}   # ... of the previous pass (used by conditions)
        self.pass_no = 0

    # ---- source access ----------------------------------------------------------------------------------------------------------
    def tree(self, path):
        if path not in self.trees:
            self.trees[path] = ast.parse(open(path, encoding="utf-8").read())
        return self.trees[path]

    def method_def(self, cls, name):
        """(FunctionDef, owner class, file) of cls.name through the real MRO, if it lives in the two packages"""
        for k in cls.__mro__:
            if name in k.__dict__:
                obj = k.__dict__[name]
                fn = getattr(obj, "__func__", obj)
                fn = getattr(fn, "__wrapped__", fn)
                if not inspect.isfunction(fn):
                    return None
                path = fn.__code__.co_filename
                if not path.startswith(self.src_root):
                    return None
                for node in ast.walk(self.tree(path)):
                    if isinstance(node, ast.ClassDef) and node.name == k.__name__:
                        for b in node.body:
                            if isinstance(b, (ast.FunctionDef, ast.AsyncFunctionDef)) and b.name == name:
                                return b, k, path
                return None
        return None

    # ---- conditions ---------------------------------------------------------------------------------------------------------------
    def guard_of_call(self, call, cls, env):
        """flags guaranteed when this call returns a truthy value"""
        f = call.func
        if isinstance(f, ast.Attribute) and f.attr in GUARDS:
            return GUARDS[f.attr]
        if isinstance(f, ast.Attribute) and isinstance(f.value, ast.Name) and f.value.id == "self":
            return self.predicate_summary(cls, f.attr)
        return frozenset()

    def predicate_summary(self, cls, name, depth=0):
        """flags guaranteed whenever the helper method returns a truthy value (every `return e`: e true => flags)"""
        key = (cls, name)
        if key in self.summaries:
            return self.summaries[key]
        self.summaries[key] = frozenset()
        md = self.method_def(cls, name)
        if md is None or depth > 3:
            return frozenset()
        fdef, owner, path = md
        rets = [n for n in ast.walk(fdef) if isinstance(n, ast.Return)]
        if not rets:
            return frozenset()
        acc = None
        for r in rets:
            if r.value is None or (isinstance(r.value, ast.Constant) and not r.value.value):
                continue             # returns a falsy constant: vacuous
            fl = self.when_true(r.value, cls, {})
            acc = fl if acc is None else (acc & fl)
        out = acc if acc is not None else frozenset()
        self.summaries[key] = out
        return out

    def when_true(self, e, cls, env):
        if isinstance(e, ast.Call):
            return self.guard_of_call(e, cls, env) | self.value_flags(e, cls, env)
        if isinstance(e, ast.BoolOp) and isinstance(e.op, ast.And):
            out = frozenset()
            for v in e.values:
                out |= self.when_true(v, cls, env)
            return out
        if isinstance(e, ast.BoolOp) and isinstance(e.op, ast.Or):
            out = None
            for v in e.values:
                f = self.when_true(v, cls, env)
                out = f if out is None else out & f
            return out or frozenset()
        if isinstance(e, ast.UnaryOp) and isinstance(e.op, ast.Not):
            return self.when_false(e.operand, cls, env)
        if isinstance(e, ast.NamedExpr):
            return self.when_true(e.value, cls, env)
        if isinstance(e, ast.Name):
            return env.get(e.id, frozenset())
        if isinstance(e, ast.Attribute) and isinstance(e.value, ast.Name):
            # `obj.attr` truthy: every write of that attribute (in whichever scanned class declares it) happened under these flags
            return self.attr_summary(e.attr)
        if isinstance(e, ast.Compare) and len(e.ops) == 1 and isinstance(e.ops[0], ast.IsNot) and _falsy_literal(e.comparators[0]):
            return self.value_flags(e.left, cls, env)
        if isinstance(e, (ast.Subscript,)):
            return self.value_flags(e, cls, env)
        return frozenset()

    def attr_write(self, cls, attr, flags, ctx):
        if ctx.get("root") == "__init__":
            return
        self.attr_writes.setdefault(attr, []).append(flags)

    def container_write(self, target, flags, env, cls, ctx):
        """x.append(..) / x[k] = .. / self.a.add(..): the container can only have become non-empty under the current flags"""
        if isinstance(target, ast.Name):
            if target.id in env:
                env[target.id] = env[target.id] & flags
        elif isinstance(target, ast.Attribute) and isinstance(target.value, ast.Name):
            self.attr_write(cls, target.attr, flags, ctx)
        elif isinstance(target, ast.Subscript):
            self.container_write(target.value, flags, env, cls, ctx)

    def value_flags(self, e, cls, env):
        """flags guaranteed when the VALUE e is truthy / not None, judged by where it comes from: a guarded attribute of self
        (self.a, self.a.pop(), self.a[k], self.a.get(k)), a local with a recorded guarantee, a conditional whose other arm is a
        falsy literal"""
        if e is None:
            return frozenset()
        if isinstance(e, ast.IfExp):
            arms = [a for a in (e.body, e.orelse) if not _falsy_literal(a)]
            if not arms:
                return BOTH
            return frozenset.intersection(*[self.value_flags(a, cls, env) for a in arms])
        if isinstance(e, ast.NamedExpr):
            return self.value_flags(e.value, cls, env)
        if isinstance(e, ast.Name):
            return env.get(e.id, frozenset())
        if isinstance(e, ast.Attribute) and isinstance(e.value, ast.Name):
            return self.attr_summary(e.attr)
        if isinstance(e, ast.Subscript):
            return self.value_flags(e.value, cls, env)
        if isinstance(e, ast.Call) and isinstance(e.func, ast.Attribute) and e.func.attr in ("pop", "get", "popleft") \
                and isinstance(e.func.value, ast.Attribute):
            return self.value_flags(e.func.value, cls, env)
        if isinstance(e, ast.Tuple):
            fs = [self.value_flags(x, cls, env) for x in e.elts]
            return frozenset.union(*fs) if fs else frozenset()
        return frozenset()

    def attr_summary(self, attr):
        if self.pass_no == 0:
            return frozenset()
        ws = self.prev_attr_writes.get(attr)
        if not ws:
            return frozenset()
        return frozenset.intersection(*ws)

    def when_false(self, e, cls, env):
        if isinstance(e, ast.UnaryOp) and isinstance(e.op, ast.Not):
            return self.when_true(e.operand, cls, env)
        if isinstance(e, ast.BoolOp) and isinstance(e.op, ast.Or):
            out = frozenset()
            for v in e.values:
                out |= self.when_false(v, cls, env)
            return out
        if isinstance(e, ast.BoolOp) and isinstance(e.op, ast.And):
            out = None
            for v in e.values:
                f = self.when_false(v, cls, env)
                out = f if out is None else out & f
            return out or frozenset()
        return frozenset()

    # ---- statements ---------------------------------------------------------------------------------------------------------------
    def block(self, stmts, flags, env, ctx):
        """-> flags after the block, or None if every path left it (return / raise / continue / break)"""
        for s in stmts:
            flags = self.stmt(s, flags, env, ctx)
            if flags is None:
                return None
        return flags

    def stmt(self, s, flags, env, ctx):
        cls = ctx["cls"]
        if isinstance(s, ast.If):
            self.expr(s.test, flags, env, ctx)
            ea, eb = dict(env), dict(env)
            a = self.block(s.body, flags | self.when_true(s.test, cls, env), ea, ctx)
            b = self.block(s.orelse, flags | self.when_false(s.test, cls, env), eb, ctx)
            merged = _meet_env([ea if a is not None else None, eb if b is not None else None])
            env.clear()
            env.update(merged)
            if a is None:
                return b
            if b is None:
                return a
            return a & b
        if isinstance(s, (ast.Return, ast.Raise)):
            if getattr(s, "value", None) is not None:
                self.expr(s.value, flags, env, ctx)
            return None
        if isinstance(s, (ast.Continue, ast.Break)):
            return None
        if isinstance(s, (ast.For, ast.AsyncFor, ast.While)):
            if isinstance(s, ast.While):
                self.expr(s.test, flags, env, ctx)
                inner = flags | self.when_true(s.test, cls, env)
            else:
                self.expr(s.iter, flags, env, ctx)
                inner = flags
            eb = dict(env)
            self.block(s.body, inner, eb, ctx)
            merged = _meet_env([dict(env), eb])
            env.clear()
            env.update(merged)
            self.block(s.orelse, flags, env, ctx)
            return flags
        if isinstance(s, (ast.With, ast.AsyncWith)):
            for it in s.items:
                self.expr(it.context_expr, flags, env, ctx)
            return self.block(s.body, flags, env, ctx)
        if isinstance(s, ast.Try):
            e0 = dict(env)
            ea = dict(env)
            a = self.block(s.body, flags, ea, ctx)
            outs, envs = [a], [ea if a is not None else None]
            for h in s.handlers:
                eh = _meet_env([dict(e0), dict(ea)])
                outs.append(self.block(h.body, flags, eh, ctx))
                envs.append(eh if outs[-1] is not None else None)
            if s.orelse and a is not None:
                outs[0] = self.block(s.orelse, a, ea, ctx)
                envs[0] = ea if outs[0] is not None else None
            live = [o for o in outs if o is not None]
            res = None
            for o in live:
                res = o if res is None else res & o
            merged = _meet_env(envs)
            env.clear()
            env.update(merged)
            if s.finalbody:
                self.block(s.finalbody, res if res is not None else flags, env, ctx)
            return res
        if isinstance(s, ast.Match):
            self.expr(s.subject, flags, env, ctx)
            outs, envs = [], []
            for c in s.cases:
                f = flags | (self.when_true(c.guard, cls, env) if c.guard is not None else frozenset())
                if c.guard is not None:
                    self.expr(c.guard, flags, env, ctx)
                ec = dict(env)
                outs.append(self.block(c.body, f, ec, ctx))
                envs.append(ec if outs[-1] is not None else None)
            outs.append(flags)         # no case matched
            envs.append(dict(env))
            live = [o for o in outs if o is not None]
            res = None
            for o in live:
                res = o if res is None else res & o
            merged = _meet_env(envs)
            env.clear()
            env.update(merged)
            return res
        if isinstance(s, (ast.FunctionDef, ast.AsyncFunctionDef, ast.ClassDef)):
            return flags
        if isinstance(s, (ast.Assign, ast.AnnAssign)):
            value = s.value
            targets = s.targets if isinstance(s, ast.Assign) else [s.target]
            if value is not None:
                self.expr(value, flags, env, ctx)
                # `v truthy => flags`: vacuous for a falsy literal; otherwise whatever holds here plus what the value itself guarantees
                fl = BOTH if _falsy_literal(value) else (flags | self.when_true(value, cls, env) | self.value_flags(value, cls, env))
                for t in targets:
                    for n in ([t] if not isinstance(t, (ast.Tuple, ast.List)) else t.elts):
                        if isinstance(n, ast.Name):
                            env[n.id] = fl if not isinstance(t, (ast.Tuple, ast.List)) else (flags | self.value_flags(value, cls, env))
                        elif isinstance(n, ast.Attribute) and isinstance(n.value, ast.Name) and n.value.id == "self":
                            self.attr_write(cls, n.attr, BOTH if (_falsy_literal(value) and n is t) else (flags if n is not t else fl), ctx)
                        elif isinstance(n, ast.Subscript):
                            self.container_write(n.value, flags, env, cls, ctx)
            return flags
        for ch in ast.iter_child_nodes(s):
            if isinstance(ch, ast.expr):
                self.expr(ch, flags, env, ctx)
        return flags

    # ---- expressions: events and inlined helper calls -------------------------------------------------------------------------------
    def expr(self, e, flags, env, ctx):
        for node in self._walk_expr(e, flags, env, ctx):
            pass

    def _walk_expr(self, e, flags, env, ctx):
        cls = ctx["cls"]
        if isinstance(e, ast.BoolOp) and isinstance(e.op, ast.And):
            cur = flags
            for v in e.values:
                self.expr(v, cur, env, ctx)
                cur = cur | self.when_true(v, cls, env)
            return []
        if isinstance(e, ast.IfExp):
            self.expr(e.test, flags, env, ctx)
            self.expr(e.body, flags | self.when_true(e.test, cls, env), env, ctx)
            self.expr(e.orelse, flags | self.when_false(e.test, cls, env), env, ctx)
            return []
        if isinstance(e, ast.Call):
            self.call(e, flags, env, ctx)
        if isinstance(e, (ast.Lambda,)):
            return []
        for ch in ast.iter_child_nodes(e):
            if isinstance(ch, ast.expr):
                self.expr(ch, flags, env, ctx)
            elif isinstance(ch, ast.comprehension):
                self.expr(ch.iter, flags, env, ctx)
                for c in ch.ifs:
                    self.expr(c, flags, env, ctx)
            elif isinstance(ch, ast.keyword):
                self.expr(ch.value, flags, env, ctx)
        return []

    def call(self, call, flags, env, ctx):
        f = call.func
        cls = ctx["cls"]
        what = None
        if isinstance(f, ast.Attribute) and f.attr in EVENT_METHODS and isinstance(f.value, ast.Name) and f.value.id == "self":
            md = self.method_def(cls, f.attr)
            if md is not None and (md[1].__module__, md[1].__name__, f.attr) in MACHINERY:
                what = f"self.{f.attr}(...)"
        elif isinstance(f, ast.Attribute) and f.attr in ("append", "extend") and isinstance(f.value, ast.Attribute) and f.value.attr in EVENT_LISTS:
            arg = call.args[0] if call.args else None
            if f.attr == "extend" and isinstance(arg, ast.Attribute) and arg.attr in EVENT_LISTS:
                what = None        # transfer from a sub-visitor: the obligation is on that class
            elif f.attr == "extend" and isinstance(arg, ast.Name):
                what = None if env.get("__transfer__:" + arg.id) else f"{f.value.attr}.extend({arg.id})"
            else:
                what = f"{f.value.attr}.{f.attr}(...)"
        if what is not None:
            need = ctx["need"]
            missing = sorted(need - flags)
            key = (ctx["file"], call.lineno, cls.__name__)
            if missing:
                self.sites[key] = Site(ctx["file"], call.lineno, cls.__name__, ctx["root"], what, missing, list(ctx["chain"]))
            else:
                self.sites.setdefault(key, None)
            return
        if isinstance(f, ast.Attribute) and f.attr in ("append", "extend", "add", "update", "insert", "setdefault") and what is None:
            vf = self.value_flags(call.args[-1], cls, env) if call.args else frozenset()
            self.container_write(f.value, flags | vf, env, cls, ctx)
        # helper method of the same object: inline with the current flags
        if isinstance(f, ast.Attribute) and isinstance(f.value, ast.Name) and f.value.id == "self" and f.attr not in GUARDS:
            if f.attr in ("on_result_found",):
                return         # analysed as an entry point with its callback contract
            md = self.method_def(cls, f.attr)
            if md is None:
                return
            fdef, owner, path = md
            if (owner.__module__, owner.__name__, f.attr) in MACHINERY:
                return
            if f.attr in ctx["chain"] or len(ctx["chain"]) > 4:
                return
            sub = dict(ctx, chain=ctx["chain"] + [f.attr], file=os.path.relpath(path, self.src_root))
            self.block(fdef.body, flags, {}, sub)

    # ---- driver -------------------------------------------------------------------------------------------------------------------
    def scan_class(self, cls, need):
        called = set()
        methods = {}
        for k in cls.__mro__:
            if not getattr(k, "__module__", "").startswith(("codemodder", "core_codemods")):
                continue
            for name, obj in k.__dict__.items():
                if name in methods:
                    continue
                md = self.method_def(cls, name)
                if md is not None and md[1] is k:
                    methods[name] = md
        for name, (fdef, owner, path) in methods.items():
            for n in ast.walk(fdef):
                if isinstance(n, ast.Call) and isinstance(n.func, ast.Attribute) and isinstance(n.func.value, ast.Name) and n.func.value.id == "self":
                    called.add(n.func.attr)
        for name, (fdef, owner, path) in methods.items():
            if (owner.__module__, owner.__name__, name) in MACHINERY or name in GUARDS:
                continue
            is_entry = name.startswith(("leave_", "visit_")) or name in ("transform_module_impl", "on_result_found") or name not in called
            if not is_entry:
                continue
            start = BOTH if name == "on_result_found" else frozenset()
            ctx = {"cls": cls, "need": need, "root": name, "chain": [name], "file": os.path.relpath(path, self.src_root)}
            self.block(fdef.body, start, {}, ctx)


def transformer_classes(src_root):
    """every class of the two packages that derives from UtilsMixin (transformers and visitors), through the live modules"""
    from codemodder.codemods.base_visitor import UtilsMixin
    out = []
    for pkg in ("codemodder", "core_codemods"):
        for dirpath, _, files in os.walk(os.path.join(src_root, pkg)):
            if "/test" in dirpath or "scripts" in dirpath:
                continue
            for fn in sorted(files):
                if not fn.endswith(".py"):
                    continue
                mod = os.path.relpath(os.path.join(dirpath, fn), src_root)[:-3].replace(os.sep, ".")
                if mod.endswith(".__init__"):
                    mod = mod[:-9]
                try:
                    m = importlib.import_module(mod)
                except Exception:      # noqa
                    continue
                for name, obj in vars(m).items():
                    if inspect.isclass(obj) and obj.__module__ == mod and issubclass(obj, UtilsMixin) and obj is not UtilsMixin:
                        out.append(obj)
    return out


def result_filtered_classes():
    """transformer classes used by a codemod that fixes the findings of an EXTERNAL tool (origin != pixee): the result filter is
    required there (C06); find-and-fix codemods need the line filter only (C13)"""
    from codemodder.registry import load_registered_codemods
    need = set()
    for c in load_registered_codemods().codemods:
        det = getattr(c, "detector", None)
        tr = getattr(c, "transformer", None)
        for t in getattr(tr, "transformers", []) or []:
            if det is not None and inspect.isclass(t) and getattr(c, "origin", "pixee") != "pixee":
                need.add(t)
    return need


def scan(src_root):
    sc = Scanner(src_root)
    res_classes = result_filtered_classes()
    classes = transformer_classes(src_root)
    # pass 0 collects under which flags each attribute is written; passes 1-2 use `obj.attr truthy => flags` in conditions
    for p in (0, 1, 2):
        sc.pass_no = p
        sc.sites = {}
        sc.summaries = {}
        sc.attr_writes = {}
        for cls in classes:
            need = BOTH if cls in res_classes else frozenset({"line"})
            sc.scan_class(cls, need)
        sc.prev_attr_writes = sc.attr_writes
    return sc.sites


# (file, class, entry method) -> reason.  Committed assumptions; each is listed in the evidence.  A site that is neither justified by the
# interpreter nor listed here is an unmet obligation.
ALLOW = {
    ("core_codemods/django_session_cookie_secure_off.py", "DjangoSessionCookieSecureOff", "leave_Module"):
        "appends `SESSION_COOKIE_SECURE = True` at the end of a settings module in which the flag is missing: no existing line is edited, "
        "so there is no node the line filter could be asked about (the change is reported at the module's last line)",
    ("core_codemods/file_resource_leak.py", "FileResourceLeakTransformer", "transform_module_impl"):
        "the changes come from ResourceLeakFixer, which is handed only the resources that passed `line_filter` "
        "(= filter_by_path_includes_or_excludes, applied three statements earlier to every entry of fr.assigned_resources): data-flow guard "
        "through a dictionary the interpreter does not follow",
}


def obligations(src_root, allow=None):
    allow = ALLOW if allow is None else allow
    out = []
    for (file, line, cls), site in sorted(scan(src_root).items()):
        if site is None:
            status, why = "discharged", "every path to this event passes the required selection filter(s)"
            oid = f"G/selection {file}:{line} [{cls}]"
        else:
            oid = f"G/selection {file}:{line} [{cls}.{site.method}: {site.what}]"
            a = allow.get((file, cls, site.method)) or allow.get((file, cls, "*"))
            if a:
                status, why = "discharged", "allow-list: " + a
            else:
                status = "refuted"
                why = (f"a change is recorded on a path on which the {' and the '.join(site.missing)} filter was not established "
                       f"(entry {site.method}, via {' -> '.join(site.chain)})")
        out.append({"id": oid, "func": f"{cls}", "kind": "selection-typestate", "label": None, "status": status,
                    "backend": "typestate scan (path-sensitive abstract interpretation of the AST)", "secs": 0.0,
                    "reason": why if status != "discharged" else "", "model": None, "path_notes": [why], "goal_size": 0, "replay": None,
                    "clause": "an event that records a change is reached only after node_is_selected / the line filter (and the result filter for detector codemods) returned True"})
    return out
