"""Ghost file system: `fs : map[path, bytes]` (a total map; absent files have an unconstrained content) and file handles.

Assumptions (recorded in the evidence): no partial-write model - `open(p, "w")` either raises OSError *before* touching the
file or succeeds, after which write()/writelines() do not fail; text I/O is UTF-8 with decode(utf8(s)) == s.
"""
from __future__ import annotations

import z3

from . import seqs as Q

from .engine import _m
from .ty import *      # noqa
from .values import *  # noqa


class FileHandle:
    __slots__ = ("path", "mode", "tmp")

    def __init__(self, path, mode, tmp=False):
        self.path, self.mode, self.tmp = path, mode, tmp

    def __repr__(self):
        return f"<file {self.path} {self.mode}>"


def _fs(E, st):
    if "fs" not in st.ghost:
        raise OutsideSubset("file I/O without the ghost file system (declare ghost fs)")
    return st.ghost["fs"]


def utf8(E):
    return E.uf("utf8", [z3.StringSort()], E.U.Bytes)


def decode(E):
    return E.uf("decode_utf8", [E.U.Bytes], z3.StringSort())


def ensure_codec_axioms(E):
    if getattr(E, "_codec_ax", False):
        return
    E._codec_ax = True
    s = z3.String("s!codec")
    E.axioms.append(z3.ForAll([s], decode(E)(utf8(E)(s)) == s, patterns=[utf8(E)(s)]))
    E.assumptions.add("axiom[codec]: decode_utf8(utf8(s)) == s")


def open_file(E, args, kw, st, node):
    ensure_codec_axioms(E)
    path = E.coerce(args[0], OPAQUE, st)
    mode = args[1] if len(args) > 1 else kw.get("mode")
    m = "r"
    if mode is not None:
        if not (isinstance(mode, SVal) and z3.is_string_value(mode.t)):
            raise OutsideSubset("open() with a symbolic mode")
        m = mode.t.as_string()
    fails = z3.Const(E.fresh_name("open_fails"), z3.BoolSort())
    for br, s in E.branch(st, fails):
        if br:
            s.note(f"open({m}) raises OSError")
            E.raise_exc(s, E.new_exc(OSError, s, exact=False))
        else:
            if "w" in m:
                fs = _fs(E, s)
                s.ghost["fs"] = SVal(z3.Store(fs.t, path.t, utf8(E)(z3.StringVal(""))), fs.ty)
                E.assumptions.add("no partial-write model: open(p,'w') fails before touching the file or not at all; writes after a successful open do not fail")
            yield s, FileHandle(path, m)


def enter_cm(E, cm, st, node):
    if isinstance(cm, FileHandle):
        yield st, cm
        return
    if isinstance(cm, SVal) and cm.ty is OPAQUE:
        E.assumptions.add("opaque context managers are transparent: __enter__ returns the object, the body runs, exceptions propagate")
        yield st, cm
        return
    raise OutsideSubset(f"context manager {cm!r}")


def handle_method(E, h, name, args, kw, st, node):
    ensure_codec_axioms(E)
    fs = _fs(E, st)
    S = z3.StringSort()
    cur = z3.Select(fs.t, h.path.t)
    if name in ("write", "writelines"):
        if name == "write":
            s = E.coerce(args[0], STR, st).t
        else:
            from .builtins_ import seq_of
            lines = E.coerce(seq_of(E, args[0], st), TList(STR), st)
            s = E.uf("str_join", [S, Q.list_sort(S)], S)(z3.StringVal(""), lines.t)
        new = utf8(E)(Q.Concat(decode(E)(cur), s))
        st.ghost["fs"] = SVal(z3.Store(fs.t, h.path.t, new), fs.ty)
        yield st, SVal(None, NONE)
    elif name in ("read", "readlines"):
        ok = E.uf("decodable", [E.U.Bytes], z3.BoolSort())(cur)
        st = E.guard(st, ok, UnicodeDecodeError, "text read of undecodable bytes")
        if st is None:
            return
        text = decode(E)(cur)
        if name == "read":
            yield st, SVal(text, STR)
        else:
            yield st, SVal(E.uf("splitlines_ke", [S], Q.list_sort(S))(text), TList(STR))
    elif name == "seek":
        yield st, SVal(None, NONE)
    else:
        raise OutsideSubset(f"file.{name}")
