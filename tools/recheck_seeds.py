#!/usr/bin/env python3
"""Re-run the checks recorded for every seeded change against the CURRENT /repo HEAD and the current /verif, several in parallel.

Each seed gets its own scratch copy of HEAD's src/ (git archive, under /tmp, removed afterwards) with the patch applied; the checks import
that copy through PYTHONPATH (the check script puts /verif first and keeps the rest), so /repo itself is not touched and runs do not
interfere.  Evidence and replay files are written to a private copy of /verif per worker.  Updates meta.json (checks, rechecked_at)."""
import json, os, shutil, subprocess, sys, tempfile
from concurrent.futures import ThreadPoolExecutor

HEAD = subprocess.run("git -C /repo rev-parse --short HEAD", shell=True, capture_output=True, text=True).stdout.strip()
seeds = sorted(d for d in os.listdir("/verif/seeded") if d[0] == "C" and os.path.exists(f"/verif/seeded/{d}/meta.json"))
only = set(sys.argv[1:])


def one(idx_name):
    idx, name = idx_name
    d = f"/verif/seeded/{name}"
    meta = json.load(open(d + "/meta.json"))
    if not meta.get("confirmed") or not meta.get("checks"):
        return name, "skipped"
    work = tempfile.mkdtemp(prefix=f"recheck_{name}_", dir="/tmp")
    try:
        subprocess.run(f"git -C /repo archive HEAD src | tar -x -C {work}", shell=True, check=True)
        shutil.copy("/repo/src/codemodder/_version.py", f"{work}/src/codemodder/_version.py")
        subprocess.run(f"cd {work} && git init -q . && git add -A >/dev/null && git commit -qm base -q", shell=True)
        ap = subprocess.run(f"cd {work} && git apply {d}/patch.diff", shell=True, capture_output=True, text=True)
        if ap.returncode != 0:
            meta["patch_applies"] = False
            json.dump(meta, open(d + "/meta.json", "w"), indent=1)
            return name, "patch does not apply"
        vcopy = f"{work}/verif"
        subprocess.run(f"rsync -a --exclude .venv --exclude .git --exclude replay --exclude seeded /verif/ {vcopy}/ && ln -s /verif/.venv {vcopy}/.venv", shell=True, check=True)
        res = {}
        for c in meta["checks"]:
            r = subprocess.run(f"cd {vcopy} && PYTHONPATH={work}/src timeout 1800 ./check {c} --tier quick", shell=True, capture_output=True, text=True)
            lines = [l.replace(vcopy, "/verif") for l in r.stdout.splitlines() if l.startswith(("VIOLATION", "KNOWN", "UNDECIDED", "CRASH", "VACUITY", c + ":"))]
            res[c] = {"exit": r.returncode, "lines": [l[:300] for l in lines[:6]]}
        meta["checks"] = res
        meta["detected_by"] = [c for c, v in res.items() if v["exit"] == 1]
        meta["rechecked_at"] = HEAD
        meta["recheck_method"] = "scratch copy of HEAD's src/ with the patch applied, imported through PYTHONPATH (tools/recheck_seeds.py)"
        json.dump(meta, open(d + "/meta.json", "w"), indent=1)
        return name, {c: v["exit"] for c, v in res.items()}
    finally:
        shutil.rmtree(work, ignore_errors=True)


todo = [(i, s) for i, s in enumerate(seeds) if not only or s in only]
with ThreadPoolExecutor(max_workers=4) as ex:
    for name, r in ex.map(one, todo):
        print(name, r, flush=True)
print("ALLDONE")
