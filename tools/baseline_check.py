#!/usr/bin/env python3
"""Run the repository's pinned baseline on a source tree and compare with /root/.vp/BASELINE.json stable_pass.

usage: baseline_check.py <tree>     (tree = /repo or a scratch worktree; its src/ is put first on PYTHONPATH)
exit 0 iff every stable_pass test passes.
"""
import json, os, subprocess, sys, tempfile, xml.etree.ElementTree as ET

tree = os.path.abspath(sys.argv[1] if len(sys.argv) > 1 else "/repo")
base = json.load(open("/root/.vp/BASELINE.json"))
want = set(base["stable_pass"])
with tempfile.TemporaryDirectory() as td:
    out = os.path.join(td, "j.xml")
    env = dict(os.environ, PYTHONPATH=os.path.join(tree, "src"), PYTHONDONTWRITEBYTECODE="1")
    subprocess.run(["/venv/bin/python", "-m", "pytest", "-q", "-p", "no:cacheprovider", "--timeout=900",
                    "--continue-on-collection-errors", "-n", os.environ.get("BASELINE_JOBS", "8"),
                    f"--junitxml={out}"], cwd=tree, env=env, stdout=subprocess.DEVNULL, stderr=subprocess.DEVNULL)
    passed = set()
    for tc in ET.parse(out).getroot().iter("testcase"):
        if not any(ch.tag in ("failure", "error", "skipped") for ch in tc):
            passed.add(f"{tc.get('classname')}::{tc.get('name')}")
missing = sorted(want - passed)
print(f"baseline stable_pass={len(want)} passed_now={len(passed & want)} regressions={len(missing)}")
for m in missing[:40]:
    print("  REGRESSION", m)
sys.exit(1 if missing else 0)
