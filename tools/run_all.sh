#!/bin/sh
# run every claimed quick check; print the one-line summaries and exit codes
cd /verif
for c in $(python3 -c "import json; print(' '.join(x['property_id'] for x in json.load(open('MANIFEST.json'))['checks']))"); do
  out=$(./check $c --tier ${1:-quick} 2>/dev/null); code=$?
  echo "$out" | grep -E "^(VIOLATION|KNOWN|UNDECIDED|CRASH|VACUITY|C[0-9]+:)" | cut -c1-220
  echo "  exit($c)=$code"
done
