#!/usr/bin/env python3
"""Regenerate /verif/MANIFEST.json from tools/manifest_data.py (claimed checks and not-applicable reasons)."""
import json, os, sys
HERE = os.path.dirname(os.path.dirname(os.path.abspath(__file__)))
sys.path.insert(0, os.path.join(HERE, "tools"))
import manifest_data as D

m = {
    "version": 1,
    "setup_cmd": "./check setup",
    "hooks": {
        "guard": "CODEMODDER_VERIF",
        "enable": "none needed: contracts are sidecar files under /verif/contracts; /repo is read (imported and parsed from its working tree on every run), never annotated",
        "baseline_off_cmd": "cd /repo && /venv/bin/python -m pytest -ra -q -p no:cacheprovider --timeout=900 --continue-on-collection-errors",
        "source_commits": D.SOURCE_COMMITS,
        "add_only": True,
    },
    "engines": [{"name": "pyvc", "path": "pyvc/", "serves_properties": sorted(D.CHECKS),
                 "kind_free_text": "own AST->VC generator (symbolic execution of the real function bodies against sidecar contracts, callee contracts at call sites, loop invariants, explicit exceptional exits, ghost file system) discharged by z3 5.1 (API) with cvc5 1.0.3 / z3 4.8.12 CLIs as fallback; native replay of counter-models on the real functions"}],
    "checks": [],
    "notes": D.NOTES,
    "not_applicable": [],
}
for pid in sorted(D.CHECKS):
    c = D.CHECKS[pid]
    m["checks"].append({
        "property_id": pid,
        "quick_cmd": f"./check {pid} --tier quick",
        "thorough_cmd": f"./check {pid} --tier thorough",
        "evidence_file": f"evidence/{pid}.json",
        "replay_cmd_template": "./check replay {path}",
        "engine": "pyvc",
        "level_claimed": {"category": "proof", "text": c["text"], "design_ref": c.get("design_ref", "DESIGN.md section 4")},
        "level_note": c["note"],
        "technique": c.get("technique", "contract-based deductive verification: VCs generated from the real function ASTs against sidecar contracts, discharged by z3/cvc5"),
    })
for pid, reason in sorted(D.NOT_APPLICABLE.items()):
    if pid not in D.CHECKS:
        m["not_applicable"].append({"property_id": pid, "reason": reason})
json.dump(m, open(os.path.join(HERE, "MANIFEST.json"), "w"), indent=1)
print("MANIFEST.json:", len(m["checks"]), "checks,", len(m["not_applicable"]), "not applicable")
