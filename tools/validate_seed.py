#!/usr/bin/env python3
"""Validate one seeded change in a scratch worktree of /repo (outside /repo and /verif) and run the checks against it.

usage: validate_seed.py <ID> <variant> <patch.diff> <demo file> <comma-separated checks>
writes /verif/seeded/<ID>_<variant>/{patch.diff, demo.*, meta.json}
steps: worktree of /repo HEAD -> demo passes on clean tree -> apply patch -> baseline stable_pass still passes -> demo fails ->
       remove worktree -> apply patch to /repo, run the checks, undo.
"""
import json, os, shutil, subprocess, sys, tempfile

ID, var, patch, demo, checks = sys.argv[1:6]
CHECKS_ONLY = len(sys.argv) > 6 and sys.argv[6] == "--checks-only"      # keep the recorded worktree validation, re-run the checks only
NO_CHECKS = len(sys.argv) > 6 and sys.argv[6] == "--no-checks"      # worktree validation only (safe to run several at once); checks via tools/recheck_seeds.py
checks = [c for c in checks.split(",") if c]
out = f"/verif/seeded/{ID}_{var}"
os.makedirs(out, exist_ok=True)
meta = {"property": ID, "variant": var, "source": f"independent sub-agent, given only the property text and a scratch worktree", "ran": []}
wt = tempfile.mkdtemp(prefix=f"seedwt_{ID}_{var}_", dir="/tmp")
os.rmdir(wt)
_prev = None
if CHECKS_ONLY and os.path.exists(f"{out}/meta.json"):
    _prev = json.load(open(f"{out}/meta.json"))
    if not (_prev.get("confirmed") and os.path.exists(f"{out}/patch.diff") and open(f"{out}/patch.diff").read() == open(patch).read()):
        _prev = None


def sh(cmd, **kw):
    r = subprocess.run(cmd, shell=True, capture_output=True, text=True, **kw)
    meta["ran"].append({"cmd": cmd if len(cmd) < 300 else cmd[:300], "exit": r.returncode})
    return r


if _prev is not None:
    for k in ("ran", "demo_clean_exit", "patch_applies", "baseline", "baseline_ok", "demo_patched_exit", "demo_patched_tail", "confirmed"):
        if k in _prev:
            meta[k] = _prev[k]
    meta["validated_at_repo_commit"] = _prev.get("validated_at_repo_commit", "an earlier HEAD of this session (same patch text)")
    meta["patch_applies"] = subprocess.run(f"git -C /repo apply --check {patch}", shell=True).returncode == 0
else:
  meta["validated_at_repo_commit"] = subprocess.run("git -C /repo rev-parse --short HEAD", shell=True, capture_output=True, text=True).stdout.strip()
  try:
      sh(f"git -C /repo worktree add -q --detach {wt} HEAD")
      shutil.copy("/repo/src/codemodder/_version.py", f"{wt}/src/codemodder/_version.py")
      env = f"PYTHONPATH={wt}/src PYTHONDONTWRITEBYTECODE=1"
      runner = "/venv/bin/python -m pytest -q -p no:cacheprovider" if os.path.basename(demo).startswith("demo_test") or "test" in os.path.basename(demo) else "/venv/bin/python"
      r0 = sh(f"cd {wt} && {env} timeout 600 {runner} {demo}")
      meta["demo_clean_exit"] = r0.returncode
      ap = sh(f"git -C {wt} apply {patch}")
      meta["patch_applies"] = ap.returncode == 0
      if ap.returncode == 0:
          b = sh(f"python3 /verif/tools/baseline_check.py {wt}")
          meta["baseline"] = b.stdout.strip().splitlines()[0] if b.stdout.strip() else b.stderr[-200:]
          meta["baseline_ok"] = b.returncode == 0
          r1 = sh(f"cd {wt} && {env} timeout 600 {runner} {demo}")
          meta["demo_patched_exit"] = r1.returncode
          meta["demo_patched_tail"] = (r1.stdout + r1.stderr)[-600:]
      meta["confirmed"] = bool(meta.get("patch_applies") and meta.get("baseline_ok") and meta.get("demo_clean_exit") == 0 and meta.get("demo_patched_exit", 0) != 0)
  finally:
      sh(f"git -C /repo worktree remove --force {wt}")
      shutil.rmtree(wt, ignore_errors=True)

# run the checks against /repo with the patch applied, then undo
meta["checks"] = {}
if NO_CHECKS:
    meta["checks"] = {c: {"exit": None, "lines": []} for c in checks}
elif meta.get("patch_applies"):
    a = sh(f"git -C /repo apply {patch}")
    try:
        if a.returncode == 0:
            for c in checks:
                r = subprocess.run(f"cd /verif && ./check {c} --tier quick", shell=True, capture_output=True, text=True)
                lines = [l for l in r.stdout.splitlines() if l.startswith(("VIOLATION", "KNOWN", "UNDECIDED", "CRASH", "VACUITY", c + ":"))]
                meta["checks"][c] = {"exit": r.returncode, "lines": [l[:300] for l in lines[:6]]}
    finally:
        sh("git -C /repo checkout -- .")
meta["detected_by"] = [c for c, v in meta["checks"].items() if v["exit"] == 1]
shutil.copy(patch, f"{out}/patch.diff")
shutil.copy(demo, f"{out}/{os.path.basename(demo)}")
readme = os.path.join(os.path.dirname(demo), "README.txt")
if os.path.exists(readme):
    meta["needs_to_manifest"] = open(readme).read()[:3000]
json.dump(meta, open(f"{out}/meta.json", "w"), indent=1)
print(ID, var, "confirmed=", meta["confirmed"], "detected_by=", meta["detected_by"], {c: v["exit"] for c, v in meta["checks"].items()})
