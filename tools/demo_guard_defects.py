#!/usr/bin/env python3
"""Native demonstration of the selection-filter defects found by the G scan (run with PYTHONPATH=<tree>/src).

For each find-and-fix codemod: a file with ONE trigger on line L is processed with --path-exclude f.py:L; a change reported
for line L means the line exclude was ignored.  For the Semgrep csrf codemod: two decorated views, ONE finding; two removed
decorators mean the change did not stay on the reported finding."""
import json, os, sys, tempfile, textwrap
from codemodder.codemodder import run

CASES = {
    "pixee:python/remove-future-imports": ("from __future__ import print_function\nx = 1\n", 1),
    "pixee:python/break-or-continue-out-of-loop": ("def f():\n    print(1)\n    break\n", 3),
    "pixee:python/django-model-without-dunder-str": ("from django.db import models\nclass User(models.Model): name = models.CharField(max_length=100)\n", 2),
    "pixee:python/use-walrus-if": ("def f(g):\n    x = g()\n    if x:\n        print(x)\n", 2),
    "pixee:python/secure-flask-session-configuration": ("import flask\napp = flask.Flask(__name__)\napp.config['SESSION_COOKIE_SECURE'] = False\n", 3),
}
bad = 0
for cid, (code, line) in CASES.items():
    with tempfile.TemporaryDirectory() as d:
        open(os.path.join(d, "f.py"), "w").write(code)
        out = os.path.join(d, "out.codetf")
        rc = run([d, "--output", out, "--codemod-include", cid, "--path-exclude", f"f.py:{line}", "--dry-run"])
        res = json.load(open(out))["results"]
        lines = [c["lineNumber"] for r in res for cs in r["changeset"] for c in cs["changes"]]
        ok = line not in lines
        print(("ok  " if ok else "FAIL"), cid, "excluded line", line, "changes at", lines)
        bad += not ok
# Semgrep csrf: one finding, two decorators
with tempfile.TemporaryDirectory() as d:
    code = textwrap.dedent("""\
        from django.views.decorators.csrf import csrf_exempt

        @csrf_exempt
        def a(request):
            return 1


        @csrf_exempt
        def b(request):
            return 2
        """)
    open(os.path.join(d, "code.py"), "w").write(code)
    sarif = {"runs": [{"tool": {"driver": {"name": "Semgrep OSS"}}, "results": [{
        "fingerprints": {"matchBasedId/v1": "a"}, "message": {"text": "m"},
        "ruleId": "python.django.security.audit.csrf-exempt.no-csrf-exempt",
        "locations": [{"physicalLocation": {"artifactLocation": {"uri": "code.py"},
                       "region": {"startLine": 3, "startColumn": 1, "endLine": 5, "endColumn": 13, "snippet": {"text": "x"}}}}]}]}]}
    sp = os.path.join(d, "r.sarif")
    json.dump(sarif, open(sp, "w"))
    out = os.path.join(d, "out.codetf")
    run([d, "--output", out, "--codemod-include", "semgrep:python/no-csrf-exempt", "--sarif", sp, "--dry-run"])
    res = json.load(open(out))["results"]
    lines = [c["lineNumber"] for r in res for cs in r["changeset"] for c in cs["changes"]]
    ok = lines == [3]
    print(("ok  " if ok else "FAIL"), "semgrep:python/no-csrf-exempt one finding (line 3) -> changes at", lines)
    bad += not ok
sys.exit(1 if bad else 0)
