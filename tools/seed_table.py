#!/usr/bin/env python3
"""Print the markdown table of seeded changes (DESIGN.md section 11.5) from /verif/seeded/*/meta.json"""
import glob, json, os, re
rows = []
for d in sorted(glob.glob("/verif/seeded/C*_*")):
    m = json.load(open(d + "/meta.json"))
    need = (m.get("needs_to_manifest") or "").strip().splitlines()
    title = next((l.strip(" =-") for l in need if l.strip(" =-")), "")
    checks = m.get("checks") or {}
    det = [c for c, v in checks.items() if v["exit"] == 1]
    how = []
    for c in det:
        ls = [l for l in checks[c]["lines"] if l.startswith("VIOLATION")]
        how.append(f"{c} ({len(ls)} obligation{'s' if len(ls) != 1 else ''}{', no input' if all('no-failing-input-found' in l for l in ls) else ', with input'})")
    others = [f"{c}: exit {v['exit']}" for c, v in checks.items() if v["exit"] != 1]
    rows.append((os.path.basename(d), title[:95], "yes" if m.get("confirmed") else "no", "; ".join(how) or "—", "; ".join(others) or ""))
print("| seed | change (first line of the author's note) | confirmed | detected by | other checks run |")
print("|---|---|---|---|---|")
for r in rows:
    print("| " + " | ".join(r) + " |")
