#!/bin/sh
# usage: tools/try_patch.sh <patch.diff> <Cxx> [<Cyy> ...]   -- applies to /repo, runs the quick checks, undoes
P="$1"; shift
git -C /repo apply "$P" || { echo "patch does not apply"; exit 9; }
for c in "$@"; do
  /verif/check "$c" --tier quick 2>&1 | grep -E "^(VIOLATION|KNOWN|C[0-9]+:|UNDECIDED|CRASH|VACUITY)" | cut -c1-300
  echo "exit($c)=$?"
done
git -C /repo checkout -- .
git -C /repo status --short | head -3
