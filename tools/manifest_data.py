SOURCE_COMMITS = []
NOTES = ("Contract-based deductive verification of the real code (DESIGN.md). Every check re-imports /repo/src and re-parses the "
         "functions under contract from the working tree; exit 0 held / 1 violation / 2 undecided / 3 checker error.")
_NOT_BUILT = "contract designed (DESIGN.md section 4) but obligations not yet discharged by the delivered generator; not claimed until they are"
NOT_APPLICABLE = {
    "C01": "needs the Python grammar and libcst code generation for arbitrary edited trees; no contract over integers/sequences/maps can state 'parses' (DESIGN.md section 5)",
    "C02": "needs scope resolution of arbitrary output programs and libcst Add/RemoveImportsVisitor semantics (DESIGN.md section 5)",
    "C07": "fixed point of detector-then-transformer composition over ~100 tree transformers and semgrep rules; no per-function contract expresses it (DESIGN.md section 5)",
    "C18": "relates semgrep's pattern language to libcst matching code; semgrep binary absent; no contract can quantify over its semantics (DESIGN.md section 5)",
}
for _i in (3, 4, 5, 6, 8, 9, 10, 11, 12, 13, 14, 15, 16, 17, 19, 20):
    NOT_APPLICABLE.setdefault(f"C{_i:02d}", _NOT_BUILT)

CHECKS = {
    "C20": {
        "text": ("Deductive: codemodder.run is executed symbolically on every path with each callee replaced by its contract; the returned "
                 "status / SystemExit code is proved equal to the documented status of the first applicable condition (missing directory => 1, "
                 "duplicate-tool or missing SARIF => 1, MisconfiguredAIClient => 3, report not writable => 2, otherwise 0), 'non-zero never "
                 "for a run whose report was written' (ghost report_written set by CodeTF.write_report, itself verified: 0 iff the whole "
                 "serialised report reached the file, 2 on any failure), main exits with run's value, ArgumentParser.error always exits 3, both "
                 "AI-client set-ups raise MisconfiguredAIClient exactly for an inconsistent key/endpoint pair, the context constructor passes "
                 "the options through unchanged."),
        "note": ("Trusted: argparse (parse_args returns or exits 0/3), os.path.exists / os.getenv as functions of their argument, sys.exit, "
                 "the client-library constructors, file I/O model (no partial writes: open('w') fails before touching the file or not at all), "
                 "contracts of run's callees that belong to other properties (apply_codemods, compile_results, match_codemods: verified there "
                 "where claimed). Uncaught exceptions (Python exits 1) are outside the property."),
        "design_ref": "DESIGN.md section 4 C20",
    },
    "C13": {
        "text": ("Deductive, unbounded: file_line_patterns (which path:line patterns apply to a file), BaseCodemod._process_file (the line "
                 "lists handed to the file context: relative spelling must apply, nothing but matching patterns may), match_line, "
                 "filter_by_path_includes_or_excludes (sandwich taken from the statement: excluded line rejected, non-included line rejected, "
                 "permitted lines accepted), node_is_selected (= result filter AND line filter) and the change-reporting helpers "
                 "(report_change/add_change/...: the change entry's lineNumber is the node's start line) are verified against contracts; "
                 "all obligations discharged by z3 on each run."),
        "note": ("Trusted: libcst PositionProvider (node_position uninterpreted, 1 <= start.line <= end.line), fnmatch.fnmatch (pure predicate), "
                 "str.split/int() as uninterpreted functions with the listed axioms; the per-codemod callback on_result_found (assumed to touch only "
                 "its file context lists). Whether each individual transformer consults the filter is the guard-obligation scan (when listed in evidence)."),
        "design_ref": "DESIGN.md section 4 C13",
    },
    "C06": {
        "text": ("Deductive, unbounded: the location-matching kernel (Result.match_location sandwich, same_line, fuzzy_column_match), "
                 "the result filter of every libcst transformer (results_for_node, filter_by_result, node_is_selected) and the findings "
                 "attached to change entries (FileContext.get_findings_for_location / get_all_findings) are verified function by function "
                 "against contracts taken from the property statement; every obligation is discharged by z3 on each run."),
        "note": ("Trusted: libcst PositionProvider (node_position is an uninterpreted pure function with 1 <= start.line <= end.line); the "
                 "dynamic-dispatch contract of match_location is assumed at call sites and carried as a refinement obligation by each override; "
                 "schematic list rules MAP/FILTERMAP of the generator; z3/cvc5. Per-transformer behaviour beyond the shared filter is out of reach."),
        "design_ref": "DESIGN.md section 4 C06",
    },
}
