SOURCE_COMMITS = []
NOTES = ("Contract-based deductive verification of the real code (DESIGN.md). Every check re-imports /repo/src and re-parses the "
         "functions under contract from the working tree; exit 0 held / 1 violation / 2 undecided / 3 checker error.")
_NOT_BUILT = "contract designed (DESIGN.md section 4) but obligations not yet discharged by the delivered generator; not claimed until they are"
NOT_APPLICABLE = {
    "C01": "needs the Python grammar and libcst code generation for arbitrary edited trees; no contract over integers/sequences/maps can state 'parses' (DESIGN.md section 5)",
    "C02": "needs scope resolution of arbitrary output programs and libcst Add/RemoveImportsVisitor semantics (DESIGN.md section 5)",
    "C07": "fixed point of detector-then-transformer composition over ~100 tree transformers and semgrep rules; no per-function contract expresses it (DESIGN.md section 5)",
    "C18": "relates semgrep's pattern language to libcst matching code; semgrep binary absent; no contract can quantify over its semantics (DESIGN.md section 5)",
}
for _i in (3, 4, 5, 6, 8, 9, 10, 11, 12, 13, 14, 15, 16, 17, 19, 20):
    NOT_APPLICABLE.setdefault(f"C{_i:02d}", _NOT_BUILT)

CHECKS = {
    "C16": {
        "text": ("Deductive, restricted to the framework helpers that every hardening codemod uses to edit a call's arguments: "
                 "LibcstResultTransformer.replace_args (loop invariants: no argument is dropped; every argument whose keyword is not named in "
                 "the edit is kept, identical and in place; additions only after the original arguments), _match_with_existing_arg, add_arg_to_call (one argument appended, the others identical and in "
                 "place), update_call_target (only the callee changes), update_arg_target, ImportedCallModifier.leave_Call (an unselected or non-matching "
                 "call is returned untouched; at most one change per call, naming the call's line) and https-connection's count_positional_args. BOUNDED "
                 "stand-in (not counted as proved): the hardening codemods that run offline, through the real CLI on generated call shapes - nested "
                 "calls, star / double-star arguments and dict spreads of the rewritten call must be preserved (expression text, not counts); two flask codemods - "
                 "replace-flask-send-file keeps every positional argument bound to its parameter (reference: signature of the installed flask.send_file), "
                 "secure-flask-session-configuration changes only SESSION_COOKIE_* values of app.config.update(...)."),
        "note": ("libcst nodes are opaque immutable records; matchers.matches(arg.keyword, m.Name(n)) is an uninterpreted predicate. Each codemod's "
                 "own on_result_found, import edits and the remaining helpers are out of reach and listed as such in the evidence."),
        "design_ref": "DESIGN.md section 4 C16",
    },

    "C05": {
        "text": ("Mixed. Deductive: every write of a pipeline/_process_file targets exactly the file handed to it (fs == store(old fs, file, ...)), "
                 "_process_file hands the selected file name unchanged to the file context. BOUNDED stand-ins (not counted as proved): filter_files "
                 "(include mode ignores a ':line' suffix, exclude mode never excludes a whole file through a ':line' pattern) and match_files (== the "
                 "set-comprehension specification with defaults when None; sorted, duplicate-free, independent of enumeration order) evaluated natively "
                 "on generated inputs; cli.parse_args delivers --path-include/--path-exclude verbatim; write-site frame scan (every write primitive in the "
                 "package is under an effect contract or on a committed allow-list); the two get_files_to_analyze implementations (deductive: only selected "
                 "files with the codemod's extensions / only files carrying a finding of a requested rule); BOUNDED: nothing outside the target is "
                 "written through symlinked manifests or sources; the two file selections of a real context (find-and-fix: defaults when no "
                 "pattern; SAST: the user's patterns without the default excludes); the real CLI over a tree whose files all contain the trigger (files "
                 "changed == selected files, incl. dotted base names)."),
        "note": "fnmatch, Path.rglob/is_symlink trusted; the ghost file system maps paths, not inodes (symlink aliasing is covered by the bounded stand-in only); 'every fixable file is fixed' is out of reach.",
        "design_ref": "DESIGN.md section 4 C05",
    },
    "C17": {
        "text": ("Mixed. Deductive: codemodder.run applies exactly match_codemods(include, exclude, sast_only = Sonar-issues-json or SARIF given), and "
                 "apply_codemods is a sequential fold over that list (ghost event trace: each codemod once, in order). BOUNDED stand-ins (not counted "
                 "as proved): CodemodRegistry.match_codemods == the reference selection of the statement on generated include/exclude lists over a "
                 "synthetic and the real registry; CsvListAction; cli.parse_args delivers --codemod-include/--codemod-exclude verbatim; registry order "
                 "independent of PYTHONHASHSEED."),
        "note": "Python's re cannot be given an SMT contract for data-dependent patterns: the wildcard predicate is bounded only. argparse trusted.",
        "design_ref": "DESIGN.md section 4 C17",
    },

    "C03": {
        "text": ("Deductive over a ghost file system (fs: path -> bytes): for each transformer pipeline (libcst, regex, XML) `apply` is verified: no "
                 "changeset => fs unchanged; only the processed file can change; in a real run the recorded diff is text_diff/lines_diff of the "
                 "content before and the very content written (same value on both sides); update_code writes exactly utf8(new code); the "
                 "requirements.txt writer writes exactly the original lines (last one newline-terminated) plus one line per new requirement. "
                 "Composition over codemods follows from apply_codemods being a sequential fold (C09)."),
        "note": ("Trusted: difflib is a correct differ and difflines_to_str line-faithful (text_diff/lines_diff uninterpreted; bounded stand-in "
                 "not yet built), libcst round trip parse_module(s).code == s, decode_utf8(utf8(s)) == s, no partial writes, transformers "
                 "perform no I/O. pyproject/setup.cfg/setup.py writers: only the dynamic-dispatch clauses (dry-run, single file), not the diff."),
        "design_ref": "DESIGN.md section 4 C03",
    },
    "C04": {
        "text": ("Deductive over the ghost file system: on every path of the three pipelines' apply, update_code, DependencyWriter.write, "
                 "RequirementsTxtWriter.add_to_file, DependencyManager.write (dry_run forwarded to the writer chosen by manifest kind), "
                 "process_dependencies and _process_file: dry_run => fs == old(fs); the context constructor stores dry_run unchanged; all four manifest "
                 "writers against the dispatch clauses; write-site frame scan. BOUNDED stand-in (not counted as proved) for the 2-safety half: the real "
                 "CLI with and without --dry-run on copies of a small project - the dry-run tree is byte-identical and its report (changesets, change "
                 "entries, failed files) equals the real run's (a second project has two manifests of which the preferred one declines)."),
        "note": ("Trusted: file-system model; transformers/SAX handlers write no project file; the other three manifest writers are covered only "
                 "through the dynamic-dispatch contract of add_to_file (assumed at the call site). The 'report of a dry run equals the report "
                 "of a real run' half (2-safety) is not proved deductively (bounded stand-in only)."),
        "design_ref": "DESIGN.md section 4 C04",
    },
    "C09": {
        "text": ("Deductive: the context aggregates are keyed frames - add_changesets/add_failures/add_unfixed_findings/add_dependencies/"
                 "process_results/_apply change only the running codemod's key of every aggregate (whole-view postconditions); get_* read one key; "
                 "compile_results[i] is built from key i only; apply_codemods is a sequential fold: ghost trace == A:id1, D:id1, A:id2, D:id2, ... "
                 "(each codemod's dependency update happens before the next codemod starts); process_dependencies touches only its codemod; _apply hands "
                 "the worker pool exactly its own selection get_files_to_analyze(context, results) (ghost work-list trace: nothing left behind by "
                 "another codemod filters or extends it); a new context starts with every aggregate empty. BOUNDED stand-ins (not counted as proved): the "
                 "property's own oracle on a small real project (batch run vs one codemod at a time through the real CLI: identical trees and per-codemod "
                 "results), and a later codemod needing the same package adds nothing to the same cached package stores."),
        "note": ("Restricted claim: read-only inputs shared between codemods (semgrep pre-filter computed once, cached package stores mutated in "
                 "memory, functools.cache on result-file loaders) are listed as undecided dependencies; BaseCodemod.apply is used through its "
                 "dynamic-dispatch contract."),
        "design_ref": "DESIGN.md section 4 C09",
    },
    "C10": {
        "text": ("Deductive: for every exceptional exit of read/decode/parse/transform in LibcstTransformerPipeline.apply (and read/decode in the "
                 "regex and XML pipelines): result is None, fs unchanged, the file is appended to failures, every finding of the file is reported "
                 "unfixed, a failed file never also gets a changeset; FileContext.add_failure/get_all_findings; process_results merges every "
                 "file context in input order."),
        "note": ("Trusted: any external may raise any Exception (modelled); thread pool re-raises what the worker raised. Exceptions raised after "
                 "the guarded region (differ, final write) are declared as allowed exceptional exits (OSError/ValueError) with fs frame conditions."),
        "design_ref": "DESIGN.md section 4 C10",
    },
    "C11": {
        "text": ("Deductive, restricted: worker bound - the only thread pool BaseCodemod._apply creates has max_workers == context.max_workers "
                 "(ghost pool_bounds), the option reaches the context unchanged; per-file frame - _process_file changes nothing of the shared "
                 "context and only its own file on disk; aggregation happens in process_results in input order. Syntactic obligation over every class of "
                 "the two packages: no class attribute holding a mutable object is mutated through instances unless __init__ re-binds it (per-file / "
                 "per-run state is not shared between worker threads or runs), and no module-level mutable container is mutated from inside a function; and no worker result is consumed in completion order (as_completed / wait / "
                 "imap_unordered): the pool is read through executor.map only."),
        "note": ("Thread interleavings themselves are outside this family: schedule independence is argued from the frame contracts, not "
                 "explored. Hash-seed/enumeration-order obligations (registry, match_files) are part of C17/C05 when claimed."),
        "design_ref": "DESIGN.md section 4 C11",
    },
    "C12": {
        "text": ("Deductive: ResultSet.__or__, list_dict_or, ResultSet.__ior__ (`|=` is dispatched through the real MRO exactly as CPython does) "
                 "equal the multiset union for every rule and file, total on disjoint keys; the four accumulators are folds of the verified merge "
                 "over all files. BOUNDED stand-ins (not counted as proved): the JSON/SARIF readers against a reference extraction on generated documents (multi-colon "
                 "components, non-S rule keys, results with locations in two files), the memoised accumulator called repeatedly in one process, and "
                 "the real CLI given several result files at once (every file with an open finding is fixed), and detect_sarif_tools on generated SARIF "
                 "families mixing runs of both registered tools, foreign and malformed runs (every file routed to every tool with a run in it)."),
        "note": "Trusted: json library, dict insertion order; reader loops over opaque JSON are bounded only (bound stated in evidence).",
        "design_ref": "DESIGN.md section 4 C12",
    },
    "C14": {
        "text": ("Deductive, restricted: PackageStore.has_requirement compares canonical names; DependencyWriter.add returns exactly the "
                 "not-yet-declared dependencies in order, each once; write leaves the manifest untouched when nothing is new; the requirements.txt "
                 "writer keeps every original line and appends each requirement once; process_dependencies adds at most one changeset and writes "
                 "nothing when no store returned a changeset; the pyproject/setup.cfg/setup.py writers against the dispatch clauses (dry-run, single file, "
                 "None => untouched). BOUNDED stand-in (not counted as proved): the real parser -> has_requirement -> writer chain on generated manifests "
                 "of all four formats against a reference reading (parses, declared kept, each new requirement once, declared already => untouched, "
                 "second run and a later codemod of the same run add nothing, a later codemod of the same run needing another package keeps the earlier addition, undecodable manifests untouched), and the real CLI with two codemods "
                 "needing one package on a project whose only manifest cannot be updated (exit 0, manifest untouched, no result claims an update)."),
        "note": "tomlkit / configparser / libcst serialisation is third-party and opaque to the engine: covered by the bounded stand-in only.",
        "design_ref": "DESIGN.md section 4 C14",
    },
    "C15": {
        "text": ("Deductive: compile_results returns exactly one result per executed codemod, in order, each built from that codemod's metadata and "
                 "keys only (lemma by induction for the length); changesets from the pipelines have a project-relative path, at least one change, "
                 "(libcst: a non-empty diff); a failed file never also has a changeset; Change validators; write_report status. BOUNDED stand-in (not counted "
                 "as proved): update_finding_metadata returns the same changesets with only rule name/url filled in (the contract compile_results assumes); "
                 "the report of a real multi-codemod run lists one result per executed codemod in execution order; the report FILE read back as UTF-8 JSON "
                 "after runs selecting same-name codemods of two origins and over non-ASCII sources (one result per executed codemod; diffs carry the text)."),
        "note": "Trusted: pydantic serialisation; metadata properties of BaseCodemod.",
        "design_ref": "DESIGN.md section 4 C15",
    },
    "C19": {
        "text": ("Deductive: both regex pipelines' _apply loops against recursive spec functions (same number of lines, line i is the substitution of "
                 "original line i - or the original line when it carries no finding -, one change per altered line numbered i+1 carrying the findings of "
                 "THAT line), the pipelines' apply (dry-run, diff faithful to what is written, unreadable file handled), XML pipeline apply. BOUNDED stand-in "
                 "(not counted as proved): the SAX re-serialisation (XMLGenerator + lexical handlers) run through the real XMLTransformerPipeline on "
                 "generated documents; event stream after == event stream before with exactly the requested edit, whitespace-only text aside; with "
                 "findings, only the element that carries the finding is edited."),
        "note": "xml.sax / expat callbacks are library code driven from C: bounded only. re.sub is an uninterpreted pure function.",
        "design_ref": "DESIGN.md section 4 C19",
    },

    "C20": {
        "text": ("Deductive: codemodder.run is executed symbolically on every path with each callee replaced by its contract; the returned "
                 "status / SystemExit code is proved equal to the documented status of the first applicable condition (missing directory => 1, "
                 "duplicate-tool or missing SARIF => 1, MisconfiguredAIClient => 3, report not writable => 2, otherwise 0), 'non-zero never "
                 "for a run whose report was written' (ghost report_written set by CodeTF.write_report, itself verified: 0 iff the whole "
                 "serialised report reached the file, 2 on any failure), main exits with run's value, ArgumentParser.error always exits 3, both "
                 "AI-client set-ups raise MisconfiguredAIClient exactly for an inconsistent key/endpoint pair, the context constructor passes "
                 "the options through unchanged. BOUNDED stand-in (not counted as proved): the real run in-process on 15 argument vectors (missing / "
                 "empty target, missing result files with and without --verbose, duplicate SARIF tool, unwritable report, invalid or conflicting "
                 "options, --version/--list): exit status == documented status, report written => 0."),
        "note": ("Trusted: argparse (parse_args returns or exits 0/3), os.path.exists / os.getenv as functions of their argument, sys.exit, "
                 "the client-library constructors, file I/O model (no partial writes: open('w') fails before touching the file or not at all), "
                 "contracts of run's callees that belong to other properties (apply_codemods, compile_results, match_codemods: verified there "
                 "where claimed). Uncaught exceptions (Python exits 1) are outside the property."),
        "design_ref": "DESIGN.md section 4 C20",
    },
    "C13": {
        "text": ("Deductive, unbounded: file_line_patterns (which path:line patterns apply to a file), BaseCodemod._process_file (the line "
                 "lists handed to the file context: relative spelling must apply, nothing but matching patterns may), match_line, "
                 "filter_by_path_includes_or_excludes (sandwich taken from the statement: excluded line rejected, non-included line rejected, "
                 "permitted lines accepted), node_is_selected (= result filter AND line filter) and the change-reporting helpers "
                 "(report_change/add_change/...: the change entry's lineNumber is the node's start line) are verified against contracts; "
                 "all obligations discharged by z3 on each run. Plus a selection-typestate obligation per change-recording site of EVERY transformer "
                 "class (147 sites): on every path to the site the line filter returned True - discharged by a path-sensitive abstract interpretation "
                 "of the real method bodies (pyvc/guardscan.py; two allow-listed sites are listed as assumptions). BOUNDED stand-in (not counted as proved): the property's own oracle "
                 "through the real CLI on seven detector-less codemods (one whose context, `app = Flask(...)`, lies on an unselected line) - three single-line sites per file, each excluded / included in turn: lines "
                 "rewritten == permitted sites and the change entries name exactly those lines."),
        "note": ("Trusted: libcst PositionProvider (node_position uninterpreted, 1 <= start.line <= end.line), fnmatch.fnmatch (pure predicate), "
                 "str.split/int() as uninterpreted functions with the listed axioms; the per-codemod callback on_result_found (assumed to touch only "
                 "its file context lists). Whether each individual transformer consults the filter is the guard-obligation scan (when listed in evidence)."),
        "design_ref": "DESIGN.md section 4 C13",
    },
    "C06": {
        "text": ("Deductive, unbounded: the location-matching kernel (Result.match_location sandwich, same_line, fuzzy_column_match), "
                 "the result filter of every libcst transformer (results_for_node, filter_by_result, node_is_selected) and the findings "
                 "attached to change entries (FileContext.get_findings_for_location / get_all_findings) are verified function by function "
                 "against contracts taken from the property statement; every obligation is discharged by z3 on each run. Plus the selection-typestate "
                 "obligation per change-recording site of every transformer class (result filter required for the transformers of external-tool "
                 "codemods; pyvc/guardscan.py). BOUNDED stand-in: Sonar/DefectDojo JSON readers."),
        "note": ("Trusted: libcst PositionProvider (node_position is an uninterpreted pure function with 1 <= start.line <= end.line); the "
                 "dynamic-dispatch contract of match_location is assumed at call sites and carried as a refinement obligation by each override; "
                 "schematic list rules MAP/FILTERMAP of the generator; z3/cvc5. Per-transformer behaviour beyond the shared filter is out of reach."),
        "design_ref": "DESIGN.md section 4 C06",
    },
}
