"""Change reporting of LibcstResultTransformer (C06: findings carried; C13: line number of the change entry)."""
from pyvc.api import contract, external

_FC = "self.file_context"
_CH = "self.file_context.codemod_changes"
_F = "old(self.file_context.get_findings_for_location({line}))"


def _appended(line, desc="description or self.change_description", findings=None):
    f = findings or f"(findings or {_F.format(line=line)})"
    return (f"{_CH} == old({_CH}) + [Change(lineNumber={line}, description={desc}, findings={f})]")


contract("codemodder.codemods.libcst_transformer.LibcstResultTransformer.report_change_for_line", props=["C06", "C13"],
         params={"self": "LibcstResultTransformer", "line_number": "int", "description": "str | None", "findings": "list[Finding] | None"},
         modifies=[_CH], exsures=[("ValueError", "line_number < 1 or (description is None and self.change_description == '') or description == ''")],
         ensures=[("exactly one change entry is appended: that line, with the findings located on that line", _appended("line_number"))])

contract("codemodder.codemods.libcst_transformer.LibcstResultTransformer.report_change", props=["C06", "C13"],
         params={"self": "LibcstResultTransformer", "original_node": "Opaque", "description": "str | None"},
         modifies=[_CH], exsures=[("ValueError", None)],
         ensures=[("one change entry at the start line of the node",
                   _appended("self.node_position(original_node).start.line",
                             findings=_F.format(line="self.node_position(original_node).start.line")))])

contract("codemodder.codemods.libcst_transformer.LibcstResultTransformer.add_change_from_position", props=["C13"],
         params={"self": "LibcstResultTransformer", "position": "CodeRange", "description": "str", "start": "bool"},
         modifies=[_CH], exsures=[("ValueError", None)],
         ensures=[("one change entry at the start (or end) line of the position",
                   _appended("(position.start.line if start else position.end.line)", desc="description or self.change_description",
                             findings=_F.format(line="(position.start.line if start else position.end.line)")))])

contract("codemodder.codemods.libcst_transformer.LibcstResultTransformer.add_change", props=["C13"],
         params={"self": "LibcstResultTransformer", "node": "Opaque", "description": "str", "start": "bool"},
         modifies=[_CH], exsures=[("ValueError", None)],
         ensures=[("one change entry at the start (or end) line of the node",
                   _appended("(self.node_position(node).start.line if start else self.node_position(node).end.line)",
                             findings=_F.format(line="(self.node_position(node).start.line if start else self.node_position(node).end.line)")))])

# the per-codemod callback: assumed to touch only the file context's change/dependency/unfixed lists (trusted)
contract("dyn:LibcstResultTransformer.on_result_found", trusted=True,
         params={"self": "LibcstResultTransformer", "original_node": "Opaque", "updated_node": "Opaque"}, returns="Opaque",
         modifies=[f"{_FC}.codemod_changes", f"{_FC}.dependencies", f"{_FC}.unfixed_findings"], raises_any=True,
         note="codemod callback on_result_found: arbitrary tree edit; may touch only codemod_changes/dependencies/unfixed_findings of its file context")

_POS = "self.node_position(original_node)"
contract("codemodder.codemods.libcst_transformer.LibcstResultTransformer._new_or_updated_node", props=["C06", "C13"],
         params={"self": "LibcstResultTransformer", "original_node": "Opaque", "updated_node": "Opaque"}, returns="Opaque",
         modifies=[f"{_FC}.codemod_changes", f"{_FC}.dependencies", f"{_FC}.unfixed_findings"], raises_any=True,
         ensures=[("a node that is not selected (result filter and line filter) is left alone and nothing is reported",
                   f"implies(not old(self.node_is_selected(original_node)), result == updated_node and {_CH} == old({_CH}))"),
                  ("a rewritten node gets a change entry at its start line carrying the findings of that line",
                   f"implies({_CH} != old({_CH}), len({_CH}) >= 1 and {_CH}[len({_CH}) - 1] == Change(lineNumber={_POS}.start.line,"
                   f" description=self.change_description, findings=self.file_context.get_findings_for_location({_POS}.start.line)))")])
