"""C16: hardening codemods make only their documented edit.

Deductive part (contracts/args.py): the framework helpers every hardening codemod edits a call through - replace_args, _match_with_existing_arg,
add_arg_to_call, update_call_target, update_arg_target, ImportedCallModifier.leave_Call, https-connection's positional-argument count.

BOUNDED stand-in (never counted as proved): each codemod's own `on_result_found` is libcst tree surgery the engine cannot execute.  For the
hardening codemods that run offline (no semgrep rule) the real CLI is run on generated call shapes - the target call with a nested call that
carries the same keywords as the fix (`shell=True`, `verify=False`, ...) inside its first argument, star-args and a `**spread`, inside a
dict literal with a `**spread` - and the output is compared with the input on what the codemod must NOT touch: every nested call, every
star/double-star argument, every dict spread, and the order of the remaining positional arguments.
"""
from __future__ import annotations

import ast
import contextlib
import io
import json
import logging
import os
import shutil
import tempfile

META = {
    "explanation": "argument-list helpers are deductive; per-codemod edits are exercised on generated call shapes (bounded)",
    "out_of_reach": ["the 16 hardening codemods whose detector is a semgrep rule (binary absent offline)", "import edits (libcst Add/RemoveImportsVisitor)"],
}

# (codemod id, import lines, callee, first argument, trailing keyword arguments of the trigger)
TRIGGERS = [
    ("pixee:python/subprocess-shell-false", "import subprocess\n", "subprocess.run", "cmd", ["shell=True"]),
    ("pixee:python/subprocess-shell-false", "import subprocess\n", "subprocess.check_output", "cmd", ["shell=True", "text=True"]),
    ("pixee:python/harden-pickle-load", "import pickle\n", "pickle.load", "fh", []),
    ("pixee:python/https-connection", "import urllib3\n", "urllib3.HTTPConnectionPool", "host", ["maxsize=2"]),
    ("pixee:python/use-defusedxml", "import xml.etree.ElementTree as ET\n", "ET.parse", "path", []),
]
NESTED = "wrap({0}, shell=True, verify=False, timeout=None)"
SHAPES = [
    "value = {callee}({nested}{kw})",
    "value = {callee}({nested}, *more{kw}, **opts)",
    "value = {callee}({nested}{kw}, extra={{**base, 'shell': True}})",
    "value = other({callee}({nested}{kw}), wrap(1, shell=True), *more, **opts)",
]


def _parts(code):
    """what a hardening codemod must leave alone: nested wrap(...) calls, star / double-star arguments, dict spreads"""
    tree = ast.parse(code)
    out = {"wrap": [], "star": [], "dstar": [], "dict-spread": 0}
    for n in ast.walk(tree):
        if isinstance(n, ast.Call):
            if isinstance(n.func, ast.Name) and n.func.id == "wrap":
                out["wrap"].append(ast.unparse(n))
            out["star"] += [ast.unparse(a.value) for a in n.args if isinstance(a, ast.Starred)]
            out["dstar"] += [ast.unparse(k.value) for k in n.keywords if k.arg is None]
        elif isinstance(n, ast.Dict):
            out["dict-spread"] += sum(k is None for k in n.keys)
    out["wrap"].sort()
    out["star"].sort()
    out["dstar"].sort()
    return out


def run_shapes(tier="quick", seed=0):
    from codemodder.codemodder import run
    base = tempfile.mkdtemp(prefix="pyvc_c16_")
    evals, bad, fired = 0, None, 0
    cwd = os.getcwd()
    try:
        os.chdir(base)
        for cid, imports, callee, arg0, kws in TRIGGERS:
            for shape in SHAPES:
                kw = "".join(", " + k for k in kws)
                line = shape.format(callee=callee, nested=NESTED.format(arg0), kw=kw)
                code = (imports + "\n\ndef wrap(x, **k):\n    return x\n\n\ndef other(*a, **k):\n    return a\n\n\n"
                        "def use(cmd, fh, host, path, more, opts, base):\n    " + line + "\n    return value\n")
                root = os.path.join(base, f"p{evals}")
                os.makedirs(root)
                open(os.path.join(root, "code.py"), "w").write(code)
                rootlog = logging.getLogger()
                for h in list(rootlog.handlers):
                    rootlog.removeHandler(h)
                with contextlib.redirect_stdout(io.StringIO()), contextlib.redirect_stderr(io.StringIO()):
                    rc = run([root, "--output", os.path.join(base, "o.codetf"), "--codemod-include", cid])
                after = open(os.path.join(root, "code.py")).read()
                evals += 1
                w = None
                if rc != 0:
                    w = {"clause": "the run completes", "status": rc}
                else:
                    try:
                        pa, pb = _parts(code), _parts(after)
                    except SyntaxError as e:
                        pa, pb = None, None
                        w = {"clause": "the rewritten file parses", "observed": str(e), "after": after}
                    if pa is not None:
                        fired += after != code
                        if pa != pb:
                            w = {"clause": "nested calls, star / double-star arguments and dict spreads of the rewritten call are preserved",
                                 "before": pa, "after": pb, "rewritten line": next((l for l in after.splitlines() if "value =" in l), "")}
                if w is not None and bad is None:
                    bad = dict(w, codemod=cid, line=line)
        # a SAST-driven hardening codemod (Sonar issues file): jwt-decode-verify on an options dict that spreads another dict
        for k, opts_text in enumerate(['{**base, "verify_signature": False}', '{"verify_signature": False, **base}', '{"verify_signature": False}']):
            src = ("import jwt\n\n\ndef wrap(x, **k):\n    return x\n\n\ndef read(token, key, base, more, opts):\n"
                   "    return jwt.decode(wrap(token, verify=False), key, algorithms=[\"HS256\"], options=" + opts_text + ")\n")
            root = os.path.join(base, f"jwt{k}")
            os.makedirs(root)
            open(os.path.join(root, "code.py"), "w").write(src)
            ln = next(i for i, l in enumerate(src.splitlines(), 1) if "jwt.decode" in l)
            text = src.splitlines()[ln - 1]
            st = text.index('"verify_signature"')
            issues = {"issues": [{"rule": "python:S5659", "status": "OPEN", "component": "code.py", "key": "K1",
                                  "textRange": {"startLine": ln, "endLine": ln, "startOffset": st, "endOffset": st + len('"verify_signature": False')}}]}
            ip = os.path.join(base, f"issues{k}.json")
            json.dump(issues, open(ip, "w"))
            rootlog = logging.getLogger()
            for h in list(rootlog.handlers):
                rootlog.removeHandler(h)
            with contextlib.redirect_stdout(io.StringIO()), contextlib.redirect_stderr(io.StringIO()):
                rc = run([root, "--output", os.path.join(base, "o.codetf"), "--codemod-include", "sonar:python/jwt-decode-verify", "--sonar-issues-json", ip])
            after = open(os.path.join(root, "code.py")).read()
            evals += 1
            fired += after != src
            if rc == 0 and after != src and bad is None:
                try:
                    pa, pb = _parts(src), _parts(after)
                    if pa != pb:
                        bad = {"clause": "nested calls, star / double-star arguments and dict spreads of the rewritten call are preserved", "before": pa, "after": pb,
                               "codemod": "sonar:python/jwt-decode-verify", "line": text.strip(), "rewritten line": next((l.strip() for l in after.splitlines() if "jwt.decode" in l), "")}
                except SyntaxError as e:
                    bad = {"clause": "the rewritten file parses", "observed": str(e), "after": after, "codemod": "sonar:python/jwt-decode-verify"}
    finally:
        os.chdir(cwd)
        shutil.rmtree(base, ignore_errors=True)
    if bad is None and fired < evals // 2:
        bad = {"clause": "vacuity guard: the codemods fire on the generated shapes", "fired": fired, "programs": evals}
    return {"kind": "bounded", "id": "bounded:hardening codemods leave nested calls, star-args and spreads of the rewritten call alone", "status": "refuted" if bad else "discharged",
            "bound": f"{len(TRIGGERS)} triggers (4 detector-less hardening codemods) x {len(SHAPES)} call shapes through the real CLI", "evaluations": evals,
            "witness": bad, "func": "core_codemods (per-codemod on_result_found)",
            "reason": "" if not bad else f"clause '{bad.get('clause')}' fails for {bad.get('codemod')}",
            "replay": {"reproduced": True, "detail": json.dumps(bad, default=str)[:2000]} if bad else None,
            "clause": "parts(before) == parts(after): nested wrap(...) calls textually identical, same number of *args / **kwargs / dict spreads"}


def _cli(root, out, args):
    from codemodder.codemodder import run
    rootlog = logging.getLogger()
    for h in list(rootlog.handlers):
        rootlog.removeHandler(h)
    with contextlib.redirect_stdout(io.StringIO()), contextlib.redirect_stderr(io.StringIO()):
        return run([root, "--output", out] + args)


def run_flask(tier="quick", seed=0):
    """BOUNDED: two flask hardening codemods through the real CLI.
    replace-flask-send-file turns positional arguments into keywords: every argument expression must reach the parameter it was bound to
    (reference: the signature of the installed flask.send_file); secure-flask-session-config may only change the value of the insecure
    SESSION_COOKIE_* keywords: every other argument of app.config.update(...), `**spread`s included, keeps its text."""
    import inspect
    base = tempfile.mkdtemp(prefix="pyvc_c16f_")
    evals, bad, fired = 0, None, 0
    cwd = os.getcwd()
    try:
        os.chdir(base)
        try:
            import flask
            params = list(inspect.signature(flask.send_file).parameters)
        except Exception:  # flask absent: the reference is the documented flask 2.x/3.x signature
            params = ["path_or_file", "mimetype", "as_attachment", "download_name", "conditional", "etag", "last_modified", "max_age"]
        names = ["mt", "att", "dn", "cond", "tag", "lm", "age"]
        for n in range(1, len(names) + 1):
            for tail in ("", ", max_age=other(1)" if n < len(names) else ""):
                if n > 1 and tail == "" and tier != "thorough" and n not in (3, 5, 6, 7):
                    continue
                args = ", ".join(names[:n])
                src = ("import flask\nfrom pathlib import Path\n\n\ndef other(*a, **k):\n    return a\n\n\n"
                       f"def view(name, {', '.join(names)}):\n    return flask.send_file(f'static/{{name}}.txt', {args}{tail})\n")
                root = os.path.join(base, f"sf{evals}")
                os.makedirs(root)
                open(os.path.join(root, "code.py"), "w").write(src)
                rc = _cli(root, os.path.join(base, "o.codetf"), ["--codemod-include", "pixee:python/replace-flask-send-file"])
                after = open(os.path.join(root, "code.py")).read()
                evals += 1
                fired += after != src
                want = {params[1 + i]: names[i] for i in range(n)}
                if tail:
                    want["max_age"] = "other(1)"
                w = None
                if rc != 0:
                    w = {"clause": "the run completes", "status": rc}
                elif after != src:
                    try:
                        call = next(c for c in ast.walk(ast.parse(after)) if isinstance(c, ast.Call) and ast.unparse(c.func).endswith("send_from_directory"))
                        got = {k.arg: ast.unparse(k.value) for k in call.keywords}
                        for i, a in enumerate(call.args[2:]):  # send_from_directory(directory, path, **kwargs): anything positional after these is lost
                            got[f"<positional {i + 2}>"] = ast.unparse(a)
                        if got != want:
                            w = {"clause": "every argument of flask.send_file reaches the parameter it was bound to", "bound before": want, "bound after": got}
                    except (SyntaxError, StopIteration) as e:
                        w = {"clause": "the rewritten file parses and still calls send_from_directory", "observed": repr(e), "after": after}
                if w is not None and bad is None:
                    bad = dict(w, codemod="pixee:python/replace-flask-send-file", line=src.splitlines()[-1].strip())
        calls = ["app.config.update(SESSION_COOKIE_SECURE=False, **more)", "app.config.update(**more, SESSION_COOKIE_HTTPONLY=False)",
                 "app.config.update(SESSION_COOKIE_SECURE=False, DEBUG=other(shell=True), **more)",
                 "app.config.update(more, SESSION_COOKIE_SAMESITE=None, **opts)", "app.config.update(SESSION_COOKIE_SECURE=True, TESTING=False, **more)"]
        for k, line in enumerate(calls):
            src = ("from flask import Flask\n\n\ndef other(*a, **k):\n    return a\n\n\napp = Flask(__name__)\nmore = {}\nopts = {}\n" + line + "\n")
            root = os.path.join(base, f"cfg{k}")
            os.makedirs(root)
            open(os.path.join(root, "code.py"), "w").write(src)
            rc = _cli(root, os.path.join(base, "o.codetf"), ["--codemod-include", "pixee:python/secure-flask-session-configuration"])
            after = open(os.path.join(root, "code.py")).read()
            evals += 1
            fired += after != src
            w = None
            if rc != 0:
                w = {"clause": "the run completes", "status": rc}
            else:
                try:
                    def shape(code):
                        c = next(c for c in ast.walk(ast.parse(code)) if isinstance(c, ast.Call) and ast.unparse(c.func) == "app.config.update")
                        return ([ast.unparse(a) for a in c.args],
                                [(kw.arg, None if (kw.arg or "").startswith("SESSION_COOKIE_") else ast.unparse(kw.value)) for kw in c.keywords])
                    if shape(src) != shape(after):
                        w = {"clause": "only the values of SESSION_COOKIE_* keywords change", "before": shape(src), "after": shape(after)}
                except (SyntaxError, StopIteration) as e:
                    w = {"clause": "the rewritten file parses", "observed": repr(e), "after": after}
            if w is not None and bad is None:
                bad = dict(w, codemod="pixee:python/secure-flask-session-configuration", line=line)
    finally:
        os.chdir(cwd)
        shutil.rmtree(base, ignore_errors=True)
    if bad is None and fired < evals // 2:
        bad = {"clause": "vacuity guard: the codemods fire on the generated programs", "fired": fired, "programs": evals}
    return {"kind": "bounded", "id": "bounded:flask hardening codemods keep every argument bound to its parameter", "status": "refuted" if bad else "discharged",
            "bound": f"{evals} generated programs (send_file with 1..7 positional arguments; config.update with spreads) through the real CLI; "
                     "reference binding: signature of the installed flask.send_file",
            "evaluations": evals, "witness": bad, "func": "core_codemods.replace_flask_send_file / secure_flask_session_config",
            "reason": "" if not bad else f"clause '{bad.get('clause')}' fails for {bad.get('codemod')}",
            "replay": {"reproduced": True, "detail": json.dumps(bad, default=str)[:2000]} if bad else None,
            "clause": "bind(send_file, args before) == keywords after; arguments of config.update other than SESSION_COOKIE_* values are textually unchanged"}


def extra_checks(tier="quick", seed=0):
    return [run_shapes(tier, seed), run_flask(tier, seed)]
