META = {
    "explanation": "restricted to the framework's argument-list helpers: LibcstResultTransformer.replace_args keeps every argument whose keyword is not named in the edit (identical, in place) and never drops one; _match_with_existing_arg returns a hit only for an entry naming the argument's keyword",
    "out_of_reach": ["each hardening codemod's own on_result_found (that it passes the right NewArg list, import edits, aliases)",
                     "add_arg_to_call / update_arg_target / update_call_target (libcst with_changes is opaque)",
                     "HTTPSConnectionModifier.count_positional_args and the other per-codemod helpers"],
}
