META = {
    "explanation": "codemodder.run is executed symbolically with every callee replaced by its contract; each path's return value / SystemExit code is checked against the documented status of the first applicable condition",
    "out_of_reach": [
        "argparse's own behaviour (unknown/conflicting/missing arguments reach ArgumentParser.error; --help/--version exit 0): assumed contract of parse_args",
        "--list/--describe actions are classes nested in factory functions (not addressable by qualified name): their parser.exit() is covered by the assumed contract of parse_args",
        "exceptions other than the handled ones escaping run (Python then exits with status 1)",
        "the clause 'a listed result file that does not exist => 1' is proved only as the loop invariant over the flattened file list (itertools.chain is an uninterpreted flattening)",
    ],
}
SANITY_TARGET = "codemodder.llm.setup_azure_llama_llm_client"
