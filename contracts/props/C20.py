META = {
    "explanation": "codemodder.run is executed symbolically with every callee replaced by its contract; each path's return value / SystemExit code is checked against the documented status of the first applicable condition",
    "out_of_reach": [
        "argparse's own behaviour (unknown/conflicting/missing arguments reach ArgumentParser.error; --help/--version exit 0): assumed contract of parse_args",
        "--list/--describe actions are classes nested in factory functions (not addressable by qualified name): their parser.exit() is covered by the assumed contract of parse_args",
        "exceptions other than the handled ones escaping run (Python then exits with status 1)",
        "the clause 'a listed result file that does not exist => 1' is proved only as the loop invariant over the flattened file list (itertools.chain is an uninterpreted flattening)",
    ],
}
SANITY_TARGET = "codemodder.llm.setup_azure_llama_llm_client"


def run_status_family(tier="quick", seed=0):
    """BOUNDED stand-in: the REAL codemodder.run in-process on a small family of argument vectors; the exit status (return value or
    SystemExit code) is compared with the documented status of the first applicable condition, and `report written => status 0`.
    Complements the deductive contract of `run`, whose callees (argparse, logging helpers, iterators) are assumed contracts."""
    import contextlib
    import io
    import json
    import logging
    import os
    import shutil
    import tempfile
    from codemodder.codemodder import run
    root = tempfile.mkdtemp(prefix="pyvc_c20_")
    proj = os.path.join(root, "proj")
    os.makedirs(proj)
    open(os.path.join(proj, "a.py"), "w").write("x = sum([i for i in range(3)])\n")
    at_proj = "@scoped-pkg"          # relative to the working directory of the family (root)
    os.makedirs(os.path.join(root, at_proj))
    open(os.path.join(root, at_proj, "a.py"), "w").write("x = 1\n")
    sarif = os.path.join(root, "s.sarif")
    json.dump({"runs": [{"tool": {"driver": {"name": "Semgrep OSS"}}, "results": []}]}, open(sarif, "w"))
    sarif2 = os.path.join(root, "s2.sarif")
    shutil.copy(sarif, sarif2)
    out = os.path.join(root, "out.codetf")
    inc = ["--codemod-include", "pixee:python/use-generator"]
    cases = [
        ("missing target directory", [os.path.join(root, "nope"), "--output", out] + inc, 1),
        ("empty directory operand", ["", "--output", out] + inc, 1),
        ("completed dry run", [proj, "--output", out, "--dry-run"] + inc, 0),
        ("target directory whose name starts with @", [at_proj, "--output", out, "--dry-run"] + inc, 0),
        ("missing target directory whose name starts with @", ["@missing-dir", "--output", out] + inc, 1),
        ("completed dry run, verbose", [proj, "--output", out, "--dry-run", "--verbose"] + inc, 0),
        ("report into a missing directory", [proj, "--output", os.path.join(root, "no", "dir", "o.codetf"), "--dry-run"] + inc, 2),
        ("report path is a directory", [proj, "--output", root, "--dry-run"] + inc, 2),
        ("missing sonar issues file", [proj, "--output", out, "--dry-run", "--sonar-issues-json", os.path.join(root, "none.json")] + inc, 1),
        ("missing sonar issues file, verbose", [proj, "--output", out, "--dry-run", "--verbose", "--sonar-issues-json", os.path.join(root, "none.json")] + inc, 1),
        ("missing sonar hotspots file, verbose", [proj, "--output", out, "--dry-run", "--verbose", "--sonar-hotspots-json", os.path.join(root, "none.json")] + inc, 1),
        ("missing sarif file", [proj, "--output", out, "--dry-run", "--sarif", os.path.join(root, "none.sarif")] + inc, 1),
        ("two sarif files of one tool", [proj, "--output", out, "--dry-run", "--sarif", sarif + "," + sarif2] + inc, 1),
        ("unknown option", [proj, "--output", out, "--no-such-option"], 3),
        ("include and exclude together", [proj, "--output", out, "--codemod-include", "a", "--codemod-exclude", "b"], 3),
        ("--version", ["--version"], 0),
        ("--list", ["--list"], 0),
    ]
    evals, bad = 0, None
    cwd = os.getcwd()
    try:
        os.chdir(root)
        for label, argv, want in cases:
            if os.path.exists(out):
                os.unlink(out)
            # every case configures logging afresh, as a new process would (logging.basicConfig is a no-op once handlers exist)
            rootlog = logging.getLogger()
            for h in list(rootlog.handlers):
                rootlog.removeHandler(h)
            rootlog.setLevel(logging.WARNING)
            try:
                with contextlib.redirect_stdout(io.StringIO()), contextlib.redirect_stderr(io.StringIO()):
                    got = run(list(argv))
            except SystemExit as e:
                got = e.code if isinstance(e.code, int) else (0 if e.code is None else 1)
            except BaseException as e:      # noqa
                got = f"raised {type(e).__name__}: {e}"
            evals += 1
            written = os.path.exists(out) and os.path.getsize(out) > 0
            w = None
            if got != want:
                w = {"case": label, "argv": argv, "status": got, "documented": want}
            elif written and got != 0:
                w = {"case": label, "argv": argv, "status": got, "clause": "a non-zero status is never returned for a run whose report was written"}
            if w is not None and bad is None:
                bad = w
    finally:
        os.chdir(cwd)
        for h in list(logging.getLogger().handlers) + list(logging.getLogger('codemodder').handlers):
            pass
        shutil.rmtree(root, ignore_errors=True)
    return {"kind": "bounded", "id": "bounded:exit status of the real run on a family of argument vectors", "status": "refuted" if bad else "discharged",
            "bound": f"{len(cases)} argument vectors (missing/empty target, missing result files with and without --verbose, duplicate SARIF tool, unwritable report, "
                     "invalid/conflicting options, --version/--list)", "evaluations": evals, "witness": bad, "func": "codemodder.codemodder.run",
            "reason": "" if not bad else f"case '{bad.get('case')}': exit status {bad.get('status')} instead of the documented one",
            "replay": {"reproduced": True, "detail": json.dumps(bad, default=str)} if bad else None,
            "clause": "exit status == documented status of the first applicable condition; report written => 0"}


def extra_checks(tier="quick", seed=0):
    return [run_status_family(tier, seed)]
