"""BOUNDED stand-in (never counted as proved): the result-file readers against a reference extraction.

The readers (SonarResultSet.from_json, DefectDojoResultSet.from_json, SemgrepResultSet.from_sarif,
CodeQLResultSet.from_sarif, detect_sarif_tools) parse JSON documents; their loops run over opaque JSON values, which the
deductive engine can only treat through uninterpreted functions.  Instead every document of a small generated family
(bound stated below) is written to a scratch file, the REAL reader is run, and the set of (rule id, file, start/end
line/column, finding id) tuples is compared with a reference extraction derived from the property statement:
every OPEN finding WITH a location of the reader's OWN tool, each exactly once, fields verbatim; nothing else.
"""
from __future__ import annotations

import itertools
import json
import os
import random
import shutil
import tempfile
from pathlib import Path

BOUND = "documents with <= 2 issues and <= 2 hotspots (Sonar), <= 2 runs x <= 2 results (SARIF), <= 3 findings (DefectDojo); statuses/tools/rules from pools of 3-5 values"


def _flat(rs):
    out = []
    for rule, files in rs.items():
        for f, results in files.items():
            for r in results:
                for loc in r.locations:
                    if loc.file == f:
                        out.append((rule, str(f), loc.start.line, loc.start.column, loc.end.line, loc.end.column,
                                    str(getattr(r, "finding_id", None))))
    return sorted(out)


# ---- Sonar ------------------------------------------------------------------------------------------------------------
_ST = ["OPEN", "TO_REVIEW", "CLOSED", "RESOLVED", "REVIEWED"]


def _sonar_entry(i, kind, status, with_range=True):
    rule = f"python:S{100 + i}" if i % 4 != 3 else ("python:LineLength" if kind == "i" else "external_pylint:C0301")
    e = {"key": f"K{kind}{i}", ("rule" if kind == "i" else "ruleKey"): rule, "status": status,
         "component": (f"proj:src/f{i}.py" if i % 3 else f"com.acme:billing:src/f{i}.py"), "message": f"m{i}"}
    if with_range:
        e["textRange"] = {"startLine": 3 + i, "endLine": 3 + i, "startOffset": 4, "endOffset": 9 + i}
    return e


def sonar_docs(rng, n):
    docs = []
    for ni, nh in itertools.product(range(3), range(3)):
        for sts in itertools.product(_ST, repeat=ni + nh):
            docs.append((ni, nh, sts))
    rng.shuffle(docs)
    # small exhaustive core first, then random remainder
    core = [d for d in docs if d[0] + d[1] <= 2]
    rest = [d for d in docs if d[0] + d[1] > 2][:max(0, n - len(core))]
    for ni, nh, sts in core + rest:
        issues = [_sonar_entry(i, "i", sts[i], with_range=(i != 1 or rng.random() < 0.7)) for i in range(ni)]
        hots = [_sonar_entry(10 + j, "h", sts[ni + j]) for j in range(nh)]
        for variant in range(3):
            d = {}
            if variant != 1 or issues:
                d["issues"] = issues
            if variant != 2 or hots:
                d["hotspots"] = hots
            yield d


def sonar_reference(doc):
    out = []
    for e in (doc.get("issues") or []) + (doc.get("hotspots") or []):
        if e["status"].lower() in ("open", "to_review") and e.get("textRange"):
            tr = e["textRange"]
            out.append((e.get("rule") or e.get("ruleKey"), e["component"].split(":")[-1], tr["startLine"], tr["startOffset"],
                        tr["endLine"], tr["endOffset"], e["key"]))
    return sorted(out)


# ---- SARIF ------------------------------------------------------------------------------------------------------------
def _sarif_result(i, region=True):
    loc = {"physicalLocation": {"artifactLocation": {"uri": f"src/g{i}.py"}}}
    if region:
        loc["physicalLocation"]["region"] = {"startLine": 5 + i, "startColumn": 2, "endLine": 5 + i, "endColumn": 11 + i,
                                             "snippet": {"text": "x"}}
    locs = [loc]
    if i % 3 == 1:
        # one finding with a second location in ANOTHER file: it must be reachable from both files
        loc2 = {"physicalLocation": {"artifactLocation": {"uri": f"src/other{i}.py"},
                                     "region": {"startLine": 9 + i, "startColumn": 3, "endLine": 9 + i, "endColumn": 8, "snippet": {"text": "y"}}}}
        locs.append(loc2)
    return {"ruleId": f"pkg.rules.r{i}", "message": {"text": "m"}, "locations": locs}


def sarif_docs(rng, n):
    tools = ["Semgrep OSS", "CodeQL", "OtherTool"]
    docs = []
    for nruns in (1, 2):
        for ts in itertools.product(tools, repeat=nruns):
            for counts in itertools.product(range(3), repeat=nruns):
                docs.append((ts, counts))
    rng.shuffle(docs)
    for ts, counts in docs[:n]:
        runs = []
        k = 0
        for t, c in zip(ts, counts):
            res = []
            for _ in range(c):
                # region-less locations are legal for CodeQL (whole-file results)
                res.append(_sarif_result(k, region=not (t == "CodeQL" and k % 3 == 2)))
                k += 1
            runs.append({"tool": {"driver": {"name": t}}, "results": res})
        yield {"version": "2.1.0", "runs": runs}


def sarif_reference(doc, tool_pred, regionless_ok):
    out = []
    for run in doc["runs"]:
        if not tool_pred(run["tool"]["driver"]["name"]):
            continue
        for r in run["results"]:
            for loc in r["locations"]:
                pl = loc["physicalLocation"]
                reg = pl.get("region")
                if reg is None:
                    if regionless_ok:
                        out.append((r["ruleId"], pl["artifactLocation"]["uri"], 0, -1, 0, -1, r["ruleId"]))
                    continue
                out.append((r["ruleId"], pl["artifactLocation"]["uri"], reg["startLine"], reg.get("startColumn"),
                            reg.get("endLine", reg["startLine"]), reg.get("endColumn", reg.get("startColumn")), r["ruleId"]))
    return sorted(out)


# ---- DefectDojo ----------------------------------------------------------------------------------------------------------
def dojo_docs(rng, n):
    for k in range(4):
        for titles in itertools.product(["t1", "t2"], repeat=k):
            yield {"results": [{"id": 10 + i, "title": t, "file_path": f"a/h{i}.py", "line": 7 + i} for i, t in enumerate(titles)]}


def dojo_reference(doc):
    return sorted((str(r["title"]), r["file_path"], r["line"], -1, r["line"], -1, str(r["id"])) for r in doc["results"])


def run(tier="quick", seed=0):
    """-> list of bounded stand-in records"""
    rng = random.Random(seed)
    n = 400 if tier == "thorough" else 120
    from core_codemods.sonar.results import SonarResultSet
    from core_codemods.defectdojo.results import DefectDojoResultSet
    from codemodder.semgrep import SemgrepResultSet
    from codemodder.codeql import CodeQLResultSet
    tmp = tempfile.mkdtemp(prefix="pyvc_readers_")
    records = []
    try:
        def go(name, docs, reader, reference):
            evals, bad, samples = 0, None, []
            for i, doc in enumerate(docs):
                p = os.path.join(tmp, f"{name}_{i}.json")
                with open(p, "w") as f:
                    json.dump(doc, f)
                try:
                    got = _flat(reader(p))
                except Exception as e:      # noqa
                    got = f"raised {type(e).__name__}: {e}"
                want = reference(doc)
                evals += 1
                if len(samples) < 2:
                    samples.append({"doc": doc, "extracted": got if isinstance(got, str) else [list(x) for x in got]})
                if got != want and bad is None:
                    bad = {"document": doc, "reader_returned": got if isinstance(got, str) else [list(x) for x in got],
                           "reference": [list(x) for x in want]}
            records.append({"kind": "bounded", "id": f"bounded:reader:{name}", "status": "refuted" if bad else "discharged",
                            "bound": BOUND, "evaluations": evals, "witness": bad, "samples": samples,
                            "reason": "" if not bad else f"reader {name} disagrees with the reference extraction on a generated document",
                            "replay": {"reproduced": True, "detail": json.dumps(bad, default=str)[:1500]} if bad else None,
                            "func": name, "clause": "parsed findings == reference extraction (open, located, own tool; fields verbatim; each once)"})

        go("SonarResultSet.from_json", sonar_docs(rng, n), lambda p: SonarResultSet.from_json.__wrapped__(SonarResultSet, p),
           sonar_reference)
        go("DefectDojoResultSet.from_json", dojo_docs(rng, n), lambda p: DefectDojoResultSet.from_json.__wrapped__(DefectDojoResultSet, p),
           dojo_reference)
        go("SemgrepResultSet.from_sarif", sarif_docs(rng, n), lambda p: SemgrepResultSet.from_sarif(p),
           lambda d: sarif_reference(d, lambda t: "semgrep" in t.lower(), False))
        go("CodeQLResultSet.from_sarif", sarif_docs(rng, n), lambda p: CodeQLResultSet.from_sarif(p),
           lambda d: sarif_reference(d, lambda t: "CodeQL" in t, True))
        records.append(_accumulator_check(tmp, rng))
    finally:
        shutil.rmtree(tmp, ignore_errors=True)
    return records


def _accumulator_check(tmp, rng):
    """process_sonar_findings over several selections and orders of the same files, in ONE process (the readers are memoised):
    each call must deliver exactly the union of the reference extractions of the files it was given - nothing left over from an
    earlier call, nothing twice"""
    from core_codemods.sonar.api import process_sonar_findings
    docs = [{"issues": [_sonar_entry(1, "i", "OPEN")]}, {"issues": [_sonar_entry(2, "i", "OPEN")], "hotspots": [_sonar_entry(12, "h", "TO_REVIEW")]},
            {"issues": [_sonar_entry(4, "i", "OPEN"), _sonar_entry(5, "i", "OPEN")]}]
    paths = []
    for i, d in enumerate(docs):
        p = os.path.join(tmp, f"acc_{i}.json")
        json.dump(d, open(p, "w"))
        paths.append(p)
    selections = [(0, 1), (1, 0), (0,), (1,), (2, 0), (0, 1, 2), (1,), (0,)]
    evals, bad = 0, None
    for sel in selections:
        files = tuple(paths[i] for i in sel)
        want = sorted(set(x for i in sel for x in sonar_reference(docs[i])))
        try:
            got = sorted(set(_flat(process_sonar_findings(files))))
            dup = len(_flat(process_sonar_findings(files))) != len(set(_flat(process_sonar_findings(files))))
        except Exception as e:      # noqa
            got, dup = f"raised {type(e).__name__}: {e}", False
        evals += 1
        if (got != want or dup) and bad is None:
            bad = {"files": [os.path.basename(f) for f in files], "delivered": got if isinstance(got, str) else [list(x) for x in got],
                   "reference": [list(x) for x in want], "duplicates": dup, "earlier calls": [list(s) for s in selections[:selections.index(sel)]]}
    return {"kind": "bounded", "id": "bounded:accumulator:process_sonar_findings is a function of the files given (repeated calls in one process)",
            "status": "refuted" if bad else "discharged", "bound": "8 selections/orders of 3 Sonar files, called in sequence in one process",
            "evaluations": evals, "witness": bad, "func": "core_codemods.sonar.api.process_sonar_findings",
            "reason": "" if not bad else "the findings delivered depend on earlier calls (state left behind in a memoised result set) or contain duplicates",
            "replay": {"reproduced": True, "detail": json.dumps(bad, default=str)[:1500]} if bad else None,
            "clause": "set of findings delivered == union of the reference extractions of exactly the given files, each once"}
