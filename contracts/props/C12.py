META = {
    "explanation": "result-set merging (`|`, `|=` dispatched through the real MRO, list_dict_or) is verified against the multiset-union specification; the four accumulators are folds of the verified merge",
    "out_of_reach": ["JSON parsing (json.load) and the SARIF/Sonar document schemas beyond the fields read by the readers"],
}


def extra_checks(tier="quick", seed=0):
    from contracts.props.readers_bounded import run
    return run(tier, seed)
