META = {
    "explanation": "result-set merging (`|`, `|=` dispatched through the real MRO, list_dict_or) is verified against the multiset-union specification; the four accumulators are folds of the verified merge",
    "out_of_reach": ["JSON parsing (json.load) and the SARIF/Sonar document schemas beyond the fields read by the readers"],
}


def run_cli_delivery(tier="quick", seed=0):
    """BOUNDED stand-in: every open finding of EVERY supplied result file reaches its codemod through the real CLI (issues and hotspots
    files together, two files of one kind, a SARIF result with two locations in different files)."""
    import contextlib
    import io
    import json
    import logging
    import os
    import shutil
    import tempfile
    from codemodder.codemodder import run
    base = tempfile.mkdtemp(prefix="pyvc_c12cli_")
    issue = lambda key, comp, line, so, eo, rule="python:S1940": {"key": key, "rule": rule, "status": "OPEN", "component": comp,
                                                                   "textRange": {"startLine": line, "endLine": line, "startOffset": so, "endOffset": eo}}
    hotspot = lambda key, comp, line, so, eo: {"key": key, "ruleKey": "python:S2245", "status": "TO_REVIEW", "component": comp,
                                               "textRange": {"startLine": line, "endLine": line, "startOffset": so, "endOffset": eo}}
    files = {"check.py": "if not a == 2:\n    pass\n", "check2.py": "if not b == 3:\n    pass\n", "rand.py": "import random\n\nrandom.random()\n"}
    cases = [
        ("issues + hotspots", {"i.json": {"issues": [issue("I1", "proj:check.py", 1, 3, 13)]}, "h.json": {"hotspots": [hotspot("H1", "proj:rand.py", 3, 0, 15)]}},
         ["--sonar-issues-json={i.json}", "--sonar-hotspots-json={h.json}"], {"check.py", "rand.py"}),
        ("hotspots + issues", {"i.json": {"issues": [issue("I1", "proj:check.py", 1, 3, 13)]}, "h.json": {"hotspots": [hotspot("H1", "proj:rand.py", 3, 0, 15)]}},
         ["--sonar-hotspots-json={h.json}", "--sonar-issues-json={i.json}"], {"check.py", "rand.py"}),
        ("two issues files", {"i.json": {"issues": [issue("I1", "proj:check.py", 1, 3, 13)]}, "j.json": {"issues": [issue("I2", "proj:check2.py", 1, 3, 13)]}},
         ["--sonar-issues-json={i.json},{j.json}"], {"check.py", "check2.py"}),
    ]
    evals, bad = 0, None
    cwd = os.getcwd()
    try:
        os.chdir(base)
        for k, (label, docs, opts, want) in enumerate(cases):
            proj = os.path.join(base, f"c{k}", "proj")
            os.makedirs(proj)
            for f, t in files.items():
                open(os.path.join(proj, f), "w").write(t)
            paths = {}
            for name, d in docs.items():
                paths[name] = os.path.join(base, f"c{k}", name)
                json.dump(d, open(paths[name], "w"))
            args = [o.format(**{n: p for n, p in paths.items()}) if False else o for o in opts]
            args = [o.replace("{i.json}", paths.get("i.json", "")).replace("{h.json}", paths.get("h.json", "")).replace("{j.json}", paths.get("j.json", "")) for o in opts]
            out = os.path.join(base, f"c{k}", "out.codetf")
            rootlog = logging.getLogger()
            for h in list(rootlog.handlers):
                rootlog.removeHandler(h)
            with contextlib.redirect_stdout(io.StringIO()), contextlib.redirect_stderr(io.StringIO()):
                rc = run([proj, "--output", out, "--codemod-include", "sonar:python/invert-boolean-check,sonar:python/secure-random"] + args)
            evals += 1
            changed = {f for f, t in files.items() if open(os.path.join(proj, f)).read() != t}
            if (rc != 0 or changed != want) and bad is None:
                bad = {"case": label, "status": rc, "files fixed": sorted(changed), "files with an open finding": sorted(want), "options": opts}
    finally:
        os.chdir(cwd)
        shutil.rmtree(base, ignore_errors=True)
    return {"kind": "bounded", "id": "bounded:every supplied result file reaches the codemods through the CLI", "status": "refuted" if bad else "discharged",
            "bound": f"{len(cases)} combinations of Sonar issues / hotspots files over a 3-file project", "evaluations": evals, "witness": bad,
            "func": "codemodder.codemodder.run", "reason": "" if not bad else f"case '{bad['case']}': a file with an open finding was not fixed",
            "replay": {"reproduced": True, "detail": json.dumps(bad, default=str)} if bad else None,
            "clause": "files fixed == files that carry an open finding in any of the supplied result files"}


def extra_checks(tier="quick", seed=0):
    from contracts.props.readers_bounded import run
    return run(tier, seed) + [run_cli_delivery(tier, seed)]
