META = {
    "explanation": "result-set merging (`|`, `|=` dispatched through the real MRO, list_dict_or) is verified against the multiset-union specification; the four accumulators are folds of the verified merge",
    "out_of_reach": ["JSON parsing (json.load) and the SARIF/Sonar document schemas beyond the fields read by the readers"],
}


import os


def run_cli_delivery(tier="quick", seed=0):
    """BOUNDED stand-in: every open finding of EVERY supplied result file reaches its codemod through the real CLI (issues and hotspots
    files together, two files of one kind, a SARIF result with two locations in different files)."""
    import contextlib
    import io
    import json
    import logging
    import os
    import shutil
    import tempfile
    from codemodder.codemodder import run
    base = tempfile.mkdtemp(prefix="pyvc_c12cli_")
    issue = lambda key, comp, line, so, eo, rule="python:S1940": {"key": key, "rule": rule, "status": "OPEN", "component": comp,
                                                                   "textRange": {"startLine": line, "endLine": line, "startOffset": so, "endOffset": eo}}
    hotspot = lambda key, comp, line, so, eo: {"key": key, "ruleKey": "python:S2245", "status": "TO_REVIEW", "component": comp,
                                               "textRange": {"startLine": line, "endLine": line, "startOffset": so, "endOffset": eo}}
    files = {"check.py": "if not a == 2:\n    pass\n", "check2.py": "if not b == 3:\n    pass\n", "rand.py": "import random\n\nrandom.random()\n"}
    cases = [
        ("issues + hotspots", {"i.json": {"issues": [issue("I1", "proj:check.py", 1, 3, 13)]}, "h.json": {"hotspots": [hotspot("H1", "proj:rand.py", 3, 0, 15)]}},
         ["--sonar-issues-json={i.json}", "--sonar-hotspots-json={h.json}"], {"check.py", "rand.py"}),
        ("hotspots + issues", {"i.json": {"issues": [issue("I1", "proj:check.py", 1, 3, 13)]}, "h.json": {"hotspots": [hotspot("H1", "proj:rand.py", 3, 0, 15)]}},
         ["--sonar-hotspots-json={h.json}", "--sonar-issues-json={i.json}"], {"check.py", "rand.py"}),
        ("two issues files", {"i.json": {"issues": [issue("I1", "proj:check.py", 1, 3, 13)]}, "j.json": {"issues": [issue("I2", "proj:check2.py", 1, 3, 13)]}},
         ["--sonar-issues-json={i.json},{j.json}"], {"check.py", "check2.py"}),
    ]
    evals, bad = 0, None
    cwd = os.getcwd()
    try:
        os.chdir(base)
        for k, (label, docs, opts, want) in enumerate(cases):
            proj = os.path.join(base, f"c{k}", "proj")
            os.makedirs(proj)
            for f, t in files.items():
                open(os.path.join(proj, f), "w").write(t)
            paths = {}
            for name, d in docs.items():
                paths[name] = os.path.join(base, f"c{k}", name)
                json.dump(d, open(paths[name], "w"))
            args = [o.format(**{n: p for n, p in paths.items()}) if False else o for o in opts]
            args = [o.replace("{i.json}", paths.get("i.json", "")).replace("{h.json}", paths.get("h.json", "")).replace("{j.json}", paths.get("j.json", "")) for o in opts]
            out = os.path.join(base, f"c{k}", "out.codetf")
            rootlog = logging.getLogger()
            for h in list(rootlog.handlers):
                rootlog.removeHandler(h)
            with contextlib.redirect_stdout(io.StringIO()), contextlib.redirect_stderr(io.StringIO()):
                rc = run([proj, "--output", out, "--codemod-include", "sonar:python/invert-boolean-check,sonar:python/secure-random"] + args)
            evals += 1
            changed = {f for f, t in files.items() if open(os.path.join(proj, f)).read() != t}
            if (rc != 0 or changed != want) and bad is None:
                bad = {"case": label, "status": rc, "files fixed": sorted(changed), "files with an open finding": sorted(want), "options": opts}
    finally:
        os.chdir(cwd)
        shutil.rmtree(base, ignore_errors=True)
    return {"kind": "bounded", "id": "bounded:every supplied result file reaches the codemods through the CLI", "status": "refuted" if bad else "discharged",
            "bound": f"{len(cases)} combinations of Sonar issues / hotspots files over a 3-file project", "evaluations": evals, "witness": bad,
            "func": "codemodder.codemodder.run", "reason": "" if not bad else f"case '{bad['case']}': a file with an open finding was not fixed",
            "replay": {"reproduced": True, "detail": json.dumps(bad, default=str)} if bad else None,
            "clause": "files fixed == files that carry an open finding in any of the supplied result files"}


def run_sarif_tool_map(tier="quick", seed=0):
    """BOUNDED stand-in for the routing step in front of the SARIF readers: `detect_sarif_tools` on generated families of SARIF files whose
    `runs` arrays mix runs of the registered tools (each tool at most once in the family, so no duplicate-tool error is due), foreign tools and
    malformed runs, in every order: tool -> files must list exactly the files that carry a run of that tool."""
    import itertools
    import json
    import random
    import shutil
    import tempfile
    from pathlib import Path
    from codemodder.sarifs import detect_sarif_tools
    rng = random.Random(seed)
    base = Path(tempfile.mkdtemp(prefix="pyvc_c12map_"))
    known = {"semgrep": ["Semgrep OSS", "semgrep"], "codeql": ["CodeQL"]}
    foreign = [{"tool": {"driver": {"name": "Bandit"}}, "results": []}, {"results": []}, {"tool": {}}, {"tool": {"driver": {"name": "ESLint"}}}]
    evals, bad = 0, None
    try:
        layouts = []
        tools = list(known)
        # one file with both tools (both orders, with and without foreign runs in between); two files one tool each; one tool only
        for order in itertools.permutations(tools):
            for pad in (0, 1, 2):
                layouts.append([[("tool", t) for t in order[:1]] + [("foreign", None)] * pad + [("tool", t) for t in order[1:]]])
            layouts.append([[("tool", order[0])], [("foreign", None), ("tool", order[1])]])
            layouts.append([[("foreign", None), ("tool", order[0])]])
        layouts.append([[("foreign", None)], [("foreign", None), ("foreign", None)]])
        for k, files in enumerate(layouts):
            paths, want = [], {}
            for j, runs in enumerate(files):
                doc = {"version": "2.1.0", "runs": []}
                p = base / f"l{k}_f{j}.sarif"
                for kind, t in runs:
                    if kind == "tool":
                        doc["runs"].append({"tool": {"driver": {"name": rng.choice(known[t])}}, "results": []})
                        want.setdefault(t, []).append(str(p))
                    else:
                        doc["runs"].append(rng.choice(foreign))
                p.write_text(json.dumps(doc))
                paths.append(p)
            evals += 1
            try:
                got = {t: list(v) for t, v in detect_sarif_tools(paths).items() if v}
            except Exception as e:      # noqa
                got = f"raised {type(e).__name__}: {e}"
            if got != want and bad is None:
                bad = {"clause": "tool -> files lists exactly the files that carry a run of that tool", "files": [json.loads(p.read_text())["runs"] for p in paths],
                       "expected": {t: [os.path.basename(x) for x in v] for t, v in want.items()},
                       "observed": got if isinstance(got, str) else {t: [os.path.basename(x) for x in v] for t, v in got.items()}}
    finally:
        shutil.rmtree(base, ignore_errors=True)
    return {"kind": "bounded", "id": "bounded:detect_sarif_tools routes every SARIF file to every tool that has a run in it", "status": "refuted" if bad else "discharged",
            "bound": f"{evals} families of 1-2 SARIF files, 1-4 runs each (semgrep / codeql / foreign / malformed runs in every order; each tool at most once)",
            "evaluations": evals, "witness": bad, "func": "codemodder.sarifs.detect_sarif_tools",
            "reason": "" if not bad else f"clause '{bad.get('clause')}' fails", "replay": {"reproduced": True, "detail": json.dumps(bad, default=str)[:2000]} if bad else None,
            "clause": "detect_sarif_tools(files)[t] == [f for f in files if some run of f is recognised by detector t]"}


def extra_checks(tier="quick", seed=0):
    from contracts.props.readers_bounded import run
    return run(tier, seed) + [run_cli_delivery(tier, seed), run_sarif_tool_map(tier, seed)]
