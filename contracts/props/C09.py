"""C09: a multi-codemod run equals running the same codemods one at a time, in order.

Deductive part (contracts/context.py, base_codemod.py, run.py): keyed aggregates (each codemod writes only its own key), apply_codemods
as a sequential fold (ghost event trace A:id, D:id, ...), _apply's work list == its own selection, a fresh context starts empty.

BOUNDED stand-in (never counted as proved): the property's own oracle on a small family - the REAL CLI (codemodder.run, in-process) is run
once with K1..Kn and, on a second copy of the project, once per codemod in the same order; the resulting trees must be byte-identical and
each codemod's changesets/failures in the batch report must equal those of its single run.  Also reuses the writer-chain stand-in of C14
(a later codemod needing the same package adds nothing to the same, cached, package stores).
"""
from __future__ import annotations

import contextlib
import io
import json
import logging
import os
import shutil
import tempfile

META = {
    "explanation": "keyed aggregates / sequential fold are deductive; batch == one-at-a-time is additionally run on a small family of real projects",
    "out_of_reach": ["codemods that need the semgrep binary (absent offline)"],
}

FILES = {
    "app.py": "import xml.etree.ElementTree as ET\nfrom __future__ import print_function\n\n\ndef total(xs):\n    assert (1, 'x')\n    return sum([x for x in xs])\n\n\ndef load(p):\n    return ET.parse(p)\n",
    "setup.py": "import os\n\nfrom setuptools import setup\n\nHAS_DOCS = any([os.path.exists(n) for n in ('README.md', 'LICENSE')])\n\nsetup(\n    name='p',\n    install_requires=[\n        'requests',\n    ],\n)\n",
    "pkg/util.py": "def f(g):\n    x = g()\n    if x:\n        return any([y for y in x])\n    return None\n",
    "broken.py": "def broken(:\n    pass\n",
}
SEQUENCES = [
    ["pixee:python/use-generator", "pixee:python/fix-assert-tuple"],
    ["pixee:python/use-defusedxml", "pixee:python/use-generator"],
    ["pixee:python/use-walrus-if", "pixee:python/use-generator", "pixee:python/remove-future-imports"],
    ["pixee:python/fix-assert-tuple", "pixee:python/use-defusedxml", "pixee:python/use-walrus-if"],
    ["pixee:python/use-generator", "pixee:python/use-defusedxml"],
]


def _tree(root):
    out = {}
    for d, _, fs in os.walk(root):
        for f in fs:
            p = os.path.join(d, f)
            out[os.path.relpath(p, root)] = open(p, "rb").read()
    return out


def _run(root, ids):
    from codemodder.codemodder import run
    out = os.path.join(os.path.dirname(root), "report_" + os.path.basename(root) + ".codetf")
    if os.path.exists(out):
        os.unlink(out)
    rootlog = logging.getLogger()
    for h in list(rootlog.handlers):
        rootlog.removeHandler(h)
    with contextlib.redirect_stdout(io.StringIO()), contextlib.redirect_stderr(io.StringIO()):
        rc = run([root, "--output", out, "--codemod-include", ",".join(ids)])
    rep = json.load(open(out)) if os.path.exists(out) else {"results": []}
    res = {}
    for r in rep["results"]:
        res[r["codemod"]] = {"changes": sorted((cs["path"], cs["diff"]) for cs in r["changeset"]),
                             "failed": sorted(os.path.relpath(f, root) if os.path.isabs(f) else f for f in (r.get("failedFiles") or []))}
    res["__order__"] = [r["codemod"] for r in rep["results"]]
    return rc, res


def run_batch_vs_single(tier="quick", seed=0):
    seqs = SEQUENCES if tier == "thorough" else SEQUENCES[:3]
    base = tempfile.mkdtemp(prefix="pyvc_c09_")
    evals, bad = 0, None
    cwd = os.getcwd()
    try:
        os.chdir(base)
        for k, seq in enumerate(seqs):
            a, b = os.path.join(base, f"batch{k}"), os.path.join(base, f"single{k}")
            for root in (a, b):
                for f, text in FILES.items():
                    os.makedirs(os.path.dirname(os.path.join(root, f)), exist_ok=True)
                    open(os.path.join(root, f), "w").write(text)
            rc_a, res_a = _run(a, seq)
            order_a = res_a.pop("__order__", [])
            res_b, rc_b = {}, 0
            for cid in seq:
                rc, r = _run(b, [cid])
                r.pop("__order__", None)
                rc_b = rc_b or rc
                res_b.update(r)
            evals += 1
            ta, tb = _tree(a), _tree(b)
            w = None
            if rc_a != 0 or rc_b != 0:
                w = {"clause": "the runs complete", "status batch": rc_a, "status single": rc_b}
            elif order_a != seq:
                w = {"clause": "the report lists one result per executed codemod, in execution order", "report order": order_a, "execution order": seq}
            elif ta != tb:
                diff = sorted(f for f in set(ta) | set(tb) if ta.get(f) != tb.get(f))
                w = {"clause": "tree(batch) == tree(one at a time)", "files that differ": diff,
                     "batch": ta.get(diff[0], b"").decode("utf-8", "replace")[:600], "one at a time": tb.get(diff[0], b"").decode("utf-8", "replace")[:600]}
            else:
                for cid in seq:
                    if res_a.get(cid) != res_b.get(cid):
                        w = {"clause": "result_i(batch) == result(run K_i)", "codemod": cid, "batch": res_a.get(cid), "single": res_b.get(cid)}
                        break
            if w is not None and bad is None:
                bad = dict(w, sequence=seq)
    finally:
        os.chdir(cwd)
        shutil.rmtree(base, ignore_errors=True)
    return {"kind": "bounded", "id": "bounded:batch run == one codemod at a time (real CLI on a small project)", "status": "refuted" if bad else "discharged",
            "bound": f"{len(seqs)} sequences of 2-3 detector-less codemods over a 4-file project (a manifest that is also rewritten as code, a file that fails to parse)",
            "evaluations": evals, "witness": bad, "func": "codemodder.codemodder.apply_codemods",
            "reason": "" if not bad else f"clause '{bad.get('clause')}' fails for {bad.get('sequence')}",
            "replay": {"reproduced": True, "detail": json.dumps(bad, default=str)[:2500]} if bad else None,
            "clause": "tree(run_{K1..Kn}(D)) == tree(run_Kn(..run_K1(D))) and per-codemod changesets / failed files agree"}


def extra_checks(tier="quick", seed=0):
    from contracts.props.C14 import run_writers
    # only the clause that belongs to C09 (state left behind in the cached package stores); the other writer clauses are C14's
    same_run = [dict(r, id=r["id"].replace("bounded:writer chain keeps", "bounded:same-run reuse of the package stores:"))
                for r in run_writers(tier, seed) if r["status"] == "discharged" or "later codemod of the same run" in r["id"]]
    import codemodder
    from pyvc import framescan
    src = os.path.dirname(os.path.dirname(os.path.abspath(codemodder.__file__)))
    return [run_batch_vs_single(tier, seed)] + same_run + framescan.shared_state_obligations(src)
