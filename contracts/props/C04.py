import os

META = {
    "explanation": "every write primitive of the package sits in a function under an effect contract over the ghost file system (frame scan), and each such function is verified: dry_run => fs == old(fs)",
    "out_of_reach": ["the 'report of a dry run equals the report of a real run' half of the property (2-safety) is not proved deductively; it is run as a bounded stand-in on a small project",
                     "the semgrep subprocess (absent offline)"],
}


def run_dry_vs_real(tier="quick", seed=0):
    """BOUNDED stand-in for the 2-safety half of C04: the real CLI with --dry-run on one copy of a small project and without it on
    another; the dry run must leave its tree byte-identical and report, per codemod, exactly the changesets and failed files of the
    real run (single-codemod runs, as in the property statement)."""
    import json
    import shutil
    import tempfile
    from contracts.props.C09 import FILES, _run, _tree
    import contextlib, io, logging
    from codemodder.codemodder import run
    codemods = ["pixee:python/use-generator", "pixee:python/use-defusedxml", "pixee:python/fix-assert-tuple", "pixee:python/use-walrus-if",
                "pixee:python/remove-future-imports"]
    if tier != "thorough":
        codemods = codemods[:3]
    base = tempfile.mkdtemp(prefix="pyvc_c04_")
    evals, bad = 0, None
    cwd = os.getcwd()

    def go(root, cid, dry):
        out = os.path.join(base, "rep_" + os.path.basename(root) + ".codetf")
        if os.path.exists(out):
            os.unlink(out)
        rootlog = logging.getLogger()
        for h in list(rootlog.handlers):
            rootlog.removeHandler(h)
        with contextlib.redirect_stdout(io.StringIO()), contextlib.redirect_stderr(io.StringIO()):
            rc = run([root, "--output", out, "--codemod-include", cid] + (["--dry-run"] if dry else []))
        rep = json.load(open(out)) if os.path.exists(out) else {"results": []}
        res = {r["codemod"]: {"changes": sorted((cs["path"], cs["diff"], json.dumps(cs["changes"], sort_keys=True)) for cs in r["changeset"]),
                              "failed": sorted(os.path.relpath(f, root) if os.path.isabs(f) else f for f in (r.get("failedFiles") or []))}
               for r in rep["results"]}
        return rc, res
    # a second project: two manifests, the preferred one (pyproject.toml with `dynamic` dependencies) declines, requirements.txt accepts
    two_manifests = {
        "app.py": "import xml.etree.ElementTree as ET\n\nET.parse('data.xml')\n",
        "requirements.txt": "requests>=2.0\n",
        "pyproject.toml": "[build-system]\nrequires = [\"setuptools\"]\n\n[project]\nname = \"demo\"\nversion = \"0.1\"\ndynamic = [\"dependencies\"]\n\n"
                          "[tool.setuptools.dynamic]\ndependencies = {file = [\"requirements.txt\"]}\n",
    }
    cases = [(cid, FILES) for cid in codemods] + [("pixee:python/use-defusedxml", two_manifests)]
    try:
        os.chdir(base)
        for k, (cid, files) in enumerate(cases):
            a, b = os.path.join(base, f"dry{k}"), os.path.join(base, f"real{k}")
            for root in (a, b):
                for f, text in files.items():
                    os.makedirs(os.path.dirname(os.path.join(root, f)), exist_ok=True)
                    open(os.path.join(root, f), "w").write(text)
            before = _tree(a)
            rc_a, res_a = go(a, cid, True)
            rc_b, res_b = go(b, cid, False)
            evals += 1
            w = None
            if _tree(a) != before:
                w = {"clause": "--dry-run leaves the project byte-identical", "changed": sorted(f for f in before if before[f] != _tree(a).get(f))}
            elif rc_a != rc_b:
                w = {"clause": "same exit status", "dry": rc_a, "real": rc_b}
            elif res_a != res_b:
                w = {"clause": "report(dry run) == report(real run) apart from timing", "dry": res_a.get(cid), "real": res_b.get(cid)}
            if w is not None and bad is None:
                bad = dict(w, codemod=cid)
    finally:
        os.chdir(cwd)
        shutil.rmtree(base, ignore_errors=True)
    return {"kind": "bounded", "id": "bounded:--dry-run predicts the real run (real CLI on a small project)", "status": "refuted" if bad else "discharged",
            "bound": f"{len(codemods)} single-codemod runs over a 4-file project (one dependency-adding codemod, a manifest that is also code, a file that fails to parse) "
                     "+ 1 run over a project with two manifests of which the first declines",
            "evaluations": evals, "witness": bad, "func": "codemodder.codemodder.run",
            "reason": "" if not bad else f"clause '{bad.get('clause')}' fails for {bad.get('codemod')}",
            "replay": {"reproduced": True, "detail": json.dumps(bad, default=str)[:2500]} if bad else None,
            "clause": "tree(dry run) == tree(before) and, per codemod, changesets / change lines / failed files of the dry run == those of the real run"}


def extra_checks(tier="quick", seed=0):
    import codemodder
    from pyvc import framescan
    from pyvc.api import REG
    src = os.path.dirname(os.path.dirname(os.path.abspath(codemodder.__file__)))
    return framescan.obligations(src, REG.contracts) + [run_dry_vs_real(tier, seed)]
