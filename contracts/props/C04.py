import os

META = {
    "explanation": "every write primitive of the package sits in a function under an effect contract over the ghost file system (frame scan), and each such function is verified: dry_run => fs == old(fs)",
    "out_of_reach": ["the 'report of a dry run equals the report of a real run' half of the property (2-safety) is not proved",
                     "the semgrep subprocess (absent offline)"],
}


def extra_checks(tier="quick", seed=0):
    import codemodder
    from pyvc import framescan
    from pyvc.api import REG
    src = os.path.dirname(os.path.dirname(os.path.abspath(codemodder.__file__)))
    return framescan.obligations(src, REG.contracts)
