META = {
    "explanation": "location matching kernel, result filter, findings attached to change entries and the per-file result lookup are verified deductively; the JSON readers (status filter: closed issues never reach a codemod) are a BOUNDED stand-in",
    "out_of_reach": ["each codemod's own on_result_found edit (that the rewritten site is the matched node)", "libcst PositionProvider"],
}


def guard_obligations(which):
    """selection typestate of every transformer class (pyvc/guardscan.py): `res` sites for C06, `line` sites for C13"""
    import os
    import codemodder
    from pyvc import guardscan
    src = os.path.dirname(os.path.dirname(os.path.abspath(codemodder.__file__)))
    out = []
    for o in guardscan.obligations(src):
        out.append(dict(o, assumptions=[f"selection typestate allow-list: {k[0]} {k[1]}.{k[2]} - {v}" for k, v in guardscan.ALLOW.items()]
                        + ["selection typestate: a guard call counts whatever node it is asked about (that the filtered node IS the edited node is not checked)"]))
    n = len(out)
    out.append({"id": "G/coverage [the scan sees the transformer classes]", "func": "pyvc.guardscan", "kind": "selection-typestate", "label": None,
                "status": "discharged" if n >= 100 else "undecided", "backend": "typestate scan", "secs": 0.0,
                "reason": "" if n >= 100 else f"unknown: only {n} change-recording sites were found (at least 100 expected): the scan is not seeing the code",
                "model": None, "path_notes": [f"{n} change-recording sites in the two packages"], "goal_size": 0, "replay": None,
                "clause": "vacuity guard: the scan must find the change-recording sites"})
    return out


def extra_checks(tier="quick", seed=0):
    from contracts.props.readers_bounded import run
    return [r for r in run(tier, seed) if "Sonar" in r["id"] or "DefectDojo" in r["id"] or "accumulator" in r["id"]] + guard_obligations("res")
