META = {
    "explanation": "location matching kernel, result filter, findings attached to change entries and the per-file result lookup are verified deductively; the JSON readers (status filter: closed issues never reach a codemod) are a BOUNDED stand-in",
    "out_of_reach": ["each codemod's own on_result_found edit (that the rewritten site is the matched node)", "libcst PositionProvider"],
}


def extra_checks(tier="quick", seed=0):
    from contracts.props.readers_bounded import run
    return [r for r in run(tier, seed) if "Sonar" in r["id"] or "DefectDojo" in r["id"]]
