"""C14: adding a dependency keeps the manifest valid, complete and duplicate-free.

Deductive part (contracts/dependencies.py): DependencyWriter.add / write, PackageStore.has_requirement,
RequirementsTxtWriter.add_to_file (content after == original lines + one line per new requirement), the three other
writers against the dynamic-dispatch clauses, DependencyManager.write, process_dependencies (first store wins).

BOUNDED stand-in (never counted as proved): the text surgery of the pyproject / setup.cfg / setup.py writers goes through
tomlkit, configparser and libcst objects, which the engine only sees as opaque values.  For those, and for the
parser -> has_requirement -> writer chain as a whole, every manifest of a generated family (bound below) is written to a
scratch directory, the REAL PythonRepoManager + DependencyManager.write is run on it, and the file afterwards is compared
with a reference reading of the property statement:
  parse(after) ok  /\\  declared(before) kept verbatim  /\\  unrelated content kept  /\\  each new requirement exactly once
  /\\  already declared (any version / spelling)  =>  untouched, no changeset  /\\  a second run adds nothing.
"""
from __future__ import annotations

import ast
import configparser
import itertools
import json
import os
import random
import shutil
import tempfile
from pathlib import Path

META = {
    "explanation": "writers' contracts are deductive; the tomlkit/configparser/libcst text surgery is a bounded stand-in",
    "out_of_reach": ["tomlkit, configparser and libcst serialisation (third-party code)"],
}

BOUND = ("manifests of <= 4 declared requirements drawn from a pool of 9 spellings (markers, extras, comments, table-valued poetry entries, "
         "other case/spelling of the needed package), 4 formats x 2-3 layouts (setup.cfg: dangling lists only), with and without trailing newline, LF and CRLF (requirements.txt); "
         "needed package in {security, defusedxml(+stub)}")


def _canon(name):
    import re
    return re.sub(r"[-_.]+", "-", name).lower()


def _req_name(text):
    from packaging.requirements import Requirement
    try:
        return _canon(Requirement(text.split("#")[0].strip()).name)
    except Exception:      # noqa
        return None


# ---- reference readers (independent of the repo's parsers) ---------------------------------------------------------------------
def read_requirements_txt(text):
    out = []
    for line in text.splitlines():
        s = line.strip()
        if not s or s.startswith("#") or s.startswith("-"):
            continue
        out.append(s)
    return out


def read_pyproject(text):
    import tomllib
    d = tomllib.loads(text)
    out = []
    for r in d.get("project", {}).get("dependencies", []) or []:
        out.append(("project", r))
    poetry = d.get("tool", {}).get("poetry", {})
    for k, v in (poetry.get("dependencies") or {}).items():
        out.append(("poetry", k, json.dumps(v, sort_keys=True, default=str)))
    for g, gv in (poetry.get("group") or {}).items():
        for k, v in (gv.get("dependencies") or {}).items():
            out.append(("poetry-group:" + g, k, json.dumps(v, sort_keys=True, default=str)))
    return out, d


def read_setup_cfg(text):
    cp = configparser.ConfigParser()
    cp.read_string(text)
    raw = cp.get("options", "install_requires", fallback="")
    items = [ln.strip() for ln in raw.splitlines() if ln.strip()]
    return items, cp


def read_setup_py(text):
    tree = ast.parse(text)
    for node in ast.walk(tree):
        if isinstance(node, ast.Call) and getattr(node.func, "id", getattr(node.func, "attr", None)) == "setup":
            for kw in node.keywords:
                if kw.arg == "install_requires" and isinstance(kw.value, (ast.List, ast.Tuple)):
                    return [e.value for e in kw.value.elts if isinstance(e, ast.Constant)]
    return []


# ---- manifest families -------------------------------------------------------------------------------------------------------
POOL = ["requests==2.31.0", "flask>=2.0 ; python_version > '3.8'", "PyYAML[extra]~=6.0", "zope.interface", "Django<5",
        "SECURITY==1.0.0", "defused_xml==0.7.0", "DefusedXML>=0.6", "security~=1.2"]


def gen_requirements(rng, n):
    extras = ["# a comment\n", "\n", "-r other.txt\n", "    # indented comment\n"]
    cases = []
    for k in range(0, 4):
        for combo in itertools.combinations(POOL, k):
            cases.append(list(combo))
    rng.shuffle(cases)
    for reqs in cases[:n]:
        for nl, final_nl, with_extra in ((("\n", True, False), ("\n", False, True), ("\r\n", True, True), ("\n", True, True))):
            lines = [r + nl for r in reqs]
            if with_extra:
                for e in extras[:rng.randint(1, 3)]:
                    lines.insert(rng.randint(0, len(lines)), e.replace("\n", nl))
            if not lines:
                continue            # empty manifest: recorded assumption of the deductive contract (see DESIGN)
            if not final_nl:
                lines[-1] = lines[-1].rstrip("\r\n")
                if not lines[-1].strip():
                    continue
            yield "requirements.txt", "".join(lines), {"other.txt": ""}


def gen_pyproject(rng, n):
    cases = []
    for k in range(0, 4):
        for combo in itertools.combinations(POOL, k):
            cases.append(list(combo))
    rng.shuffle(cases)
    for reqs in cases[:n]:
        q = [json.dumps(r) for r in reqs]
        yield "pyproject.toml", '[project]\nname = "p"\nversion = "1"\ndependencies = [%s]\n\n[tool.other]\nkeep = "me"  # comment\n' % ", ".join(q), {}
        yield "pyproject.toml", '[project]\nname = "p"\nversion = "1"\ndependencies = [\n%s]\n# trailing comment\n' % "".join(f"    {x},\n" for x in q), {}
    # poetry layouts: plain string entries and table-valued entries
    poetry_entries = [('requests', '"^2.31"'), ('flask', '{version = ">=2", optional = true}'), ('defusedxml', '{version = ">=0.6,<0.8", optional = true}'),
                      ('security', '"~1.2"'), ('PyYAML', '{version = "^6", extras = ["x"]}'), ('Defused_XML', '"*"')]
    pcases = []
    for k in range(0, 4):
        for combo in itertools.combinations(poetry_entries, k):
            pcases.append(list(combo))
    rng.shuffle(pcases)
    for ents in pcases[:n]:
        body = "".join(f"{k} = {v}\n" for k, v in ents)
        yield "pyproject.toml", ('[tool.poetry]\nname = "p"\nversion = "1"\ndescription = ""\nauthors = []\n\n[tool.poetry.dependencies]\npython = "^3.10"\n'
                                 + body + '\n[tool.poetry.group.test.dependencies]\nmypy = "*"\n\n[tool.other]\nkeep = "me"\n'), {}


def gen_setup_cfg(rng, n):
    cases = []
    for k in range(0, 4):
        for combo in itertools.combinations(POOL, k):
            cases.append(list(combo))
    rng.shuffle(cases)
    for reqs in cases[:n]:
        if reqs:
            yield "setup.cfg", "[metadata]\nname = p\n\n[options]\ninstall_requires =\n%s\n[flake8]\nmax-line-length = 100\n" % "".join(f"    {r}\n" for r in reqs), {}
            yield "setup.cfg", "[metadata]\nname = p\n\n[options]\npython_requires = >=3.8\ninstall_requires =\n%s\n" % "".join(f"\t{r}\n" for r in reqs), {}
            yield "setup.cfg", ("[metadata]\nname = p\n\n[options]\ninstall_requires =\n%s\n[options.extras_require]\nextra =\n    %s\n    zzz-extra\n"
                                % ("".join(f"    {r}\n" for r in reqs), reqs[-1])), {}


def gen_setup_py(rng, n):
    cases = []
    for k in range(0, 4):
        for combo in itertools.combinations(POOL, k):
            cases.append(list(combo))
    rng.shuffle(cases)
    for reqs in cases[:n]:
        q = [json.dumps(r) for r in reqs]
        yield "setup.py", "from setuptools import setup\n\nsetup(\n    name='p',\n    install_requires=[%s],\n    python_requires='>=3.8',\n)\n" % ", ".join(q), {}
        yield "setup.py", "from setuptools import setup\n\nsetup(\n    name='p',\n    install_requires=[\n%s    ],\n)\n# end\n" % "".join(f"        {x},\n" for x in q), {}
        if q:
            yield "setup.py", "from setuptools import setup; setup(name='p', install_requires=[%s])\n" % ", ".join(q), {}
            sq = ["'" + r.replace("'", '"') + "'" for r in reqs]
            yield "setup.py", "from setuptools import setup\n\nsetup(\n    name='p',\n    install_requires=[\n%s    ],\n)\n" % "".join(f"        {x},\n" for x in sq), {}


# ---- one evaluation ----------------------------------------------------------------------------------------------------------
def _declared(fname, text):
    """(entries kept verbatim, canonical names declared) by the reference reading"""
    if fname == "requirements.txt":
        ents = read_requirements_txt(text)
        return ents, [_req_name(e) for e in ents]
    if fname == "pyproject.toml":
        ents, _ = read_pyproject(text)
        names = [_req_name(e[1]) if e[0] == "project" else _canon(e[1]) for e in ents if not e[0].startswith("poetry-group")]
        return ents, names
    if fname == "setup.cfg":
        ents, _ = read_setup_cfg(text)
        return ents, [_req_name(e) for e in ents]
    ents = read_setup_py(text)
    return ents, [_req_name(e) for e in ents]


def evaluate(tmp, fname, text, aux, deps):
    """run the real chain; -> None (all clauses hold) or a witness dict"""
    from codemodder.project_analysis.python_repo_manager import PythonRepoManager
    from codemodder.dependency_management import DependencyManager
    root = Path(tmp)
    for f in root.iterdir():
        if f.is_file():
            f.unlink()
    (root / fname).write_bytes(text.encode("utf-8"))
    for k, v in aux.items():
        (root / k).write_text(v)
    before_ents, before_names = _declared(fname, text)
    needed = [_canon(d.requirement.name) for d in deps]

    def run_once():
        stores = PythonRepoManager(root).package_stores
        for st in stores:
            cs = DependencyManager(st, root).write(list(deps), dry_run=False)
            if cs is not None:
                return cs, stores
        return None, stores

    try:
        cs, stores = run_once()
    except Exception as e:      # noqa
        return {"clause": "the run still succeeds", "observed": f"raised {type(e).__name__}: {e}"}
    after = (root / fname).read_bytes().decode("utf-8")
    for k, v in aux.items():
        if (root / k).read_text() != v:
            return {"clause": "at most one manifest is updated", "observed": f"{k} changed"}
    if not stores:
        # the repo's parser does not recognise this manifest at all: nothing may change
        return None if after == text else {"clause": "unrecognised manifest untouched", "observed": after}
    already = [n for n in needed if n in before_names]
    try:
        after_ents, after_names = _declared(fname, after)
    except Exception as e:      # noqa
        return {"clause": "parse(after) ok", "observed": f"{type(e).__name__}: {e}", "after": after}
    # every previously declared requirement is kept verbatim
    missing = [e for e in before_ents if e not in after_ents]
    if missing:
        return {"clause": "reqs(before) subset of reqs(after)", "observed": {"lost": missing}, "after": after}
    if cs is None and after != text:
        return {"clause": "no changeset => manifest untouched", "after": after}
    if len(already) == len(needed):
        if after != text or cs is not None:
            return {"clause": "already declared (any version/spelling) => untouched", "already": already, "after": after}
    if cs is not None:
        for n in needed:
            c = after_names.count(n)
            want = 1
            if c != want:
                return {"clause": "each needed requirement exactly once", "name": n, "count": c, "after": after}
        # C15: each change entry's line number lies inside the new file
        after_lines = after.splitlines()
        for ch in cs.changes:
            ln = ch.lineNumber
            if not (1 <= ln <= len(after_lines)):
                return {"clause": "a change's line number lies inside the file", "lineNumber": ln, "lines": len(after_lines), "after": after}
        # unrelated content: every original non-blank line survives, in order (modulo the final newline being added)
        src = [ln.strip() for ln in text.splitlines() if ln.strip()]
        dst = [ln.strip() for ln in after.splitlines() if ln.strip()]
        it = iter(dst)
        lost = [ln for ln in src if not _consume(it, ln)]
        if lost and fname in ("requirements.txt", "setup.cfg"):
            return {"clause": "unrelated content kept", "lost lines": lost[:3], "after": after}
    # a later codemod of the SAME run (same cached package stores) that needs the same package adds nothing
    if cs is not None:
        try:
            cs_same = None
            for st in stores:
                cs_same = cs_same or DependencyManager(st, root).write(list(deps), dry_run=False)
        except Exception as e:      # noqa
            return {"clause": "a later codemod of the same run needing the same package: still succeeds", "observed": f"raised {type(e).__name__}: {e}", "after": after}
        after_same = (root / fname).read_bytes().decode("utf-8")
        if cs_same is not None or after_same != after:
            return {"clause": "a later codemod of the same run needing the same package adds nothing (same package stores)", "after first": after,
                    "after second": after_same}
    # a later codemod of the SAME run (same cached package stores) that needs ANOTHER package: the first addition is kept, the new one added once
    if cs is not None:
        from codemodder.dependency import DefusedXML, Security
        other = DefusedXML if _canon(deps[0].requirement.name) == _canon(Security.requirement.name) else Security
        on = _canon(other.requirement.name)
        if on not in before_names:
            mid = (root / fname).read_bytes().decode("utf-8")
            try:
                cs_o = None
                for st in stores:
                    cs_o = cs_o or DependencyManager(st, root).write([other], dry_run=False)
            except Exception as e:      # noqa
                return {"clause": "the run still succeeds", "observed": f"raised {type(e).__name__}: {e}", "after": mid}
            after_o = (root / fname).read_bytes().decode("utf-8")
            if cs_o is None:
                if after_o != mid:
                    return {"clause": "no changeset => manifest untouched", "after": after_o}
            else:
                try:
                    _, names_o = _declared(fname, after_o)
                except Exception as e:      # noqa
                    return {"clause": "parse(after) ok", "observed": f"{type(e).__name__}: {e}", "after": after_o}
                for n2 in needed + [on]:
                    if names_o.count(n2) != 1:
                        return {"clause": "a later codemod of the same run needing another package keeps the earlier addition and adds its own once (same package stores)",
                                "name": n2, "count": names_o.count(n2), "after first": mid, "after second": after_o}
                after = after_o
    # a second run adds nothing
    try:
        cs2, _ = run_once()
    except Exception as e:      # noqa
        return {"clause": "second run still succeeds", "observed": f"raised {type(e).__name__}: {e}", "after": after}
    after2 = (root / fname).read_bytes().decode("utf-8")
    if cs is not None and (after2 != after or cs2 is not None):
        return {"clause": "a second run adds nothing", "after first": after, "after second": after2}
    return None


def _consume(it, ln):
    for x in it:
        if x == ln or x.rstrip(",") == ln.rstrip(","):
            return True
    return False


def run_undecodable(tmp):
    """a manifest the project's parser accepts but that is not UTF-8 (UTF-16 with BOM): the writer cannot edit it faithfully, so it must
    be left byte-identical and no changeset may claim an update"""
    from codemodder.dependency import Security
    from codemodder.dependency_management import DependencyManager
    from codemodder.project_analysis.python_repo_manager import PythonRepoManager
    root = Path(tmp)
    evals, bad = 0, None
    for name, text in (("requirements.txt", "# deps\nrequests==2.31.0\nflask>=2.0\n-r other.txt\n"),):
        for enc in ("utf-16", "latin-1"):
            for f in root.iterdir():
                if f.is_file():
                    f.unlink()
            data = (text if enc == "utf-16" else text.replace("deps", "d\xe9ps")).encode(enc)
            (root / name).write_bytes(data)
            (root / "other.txt").write_text("")
            evals += 1
            try:
                cs = None
                for st in PythonRepoManager(root).package_stores:
                    cs = cs or DependencyManager(st, root).write([Security], dry_run=False)
            except Exception as e:      # noqa
                cs = f"raised {type(e).__name__}: {e}"
            after = (root / name).read_bytes()
            ok_utf8 = True
            try:
                after.decode("utf-8")
            except UnicodeDecodeError:
                ok_utf8 = False
            if after != data and bad is None:
                # rewriting is only acceptable when every previously declared requirement survives in the new text
                new = after.decode("utf-8", "replace")
                if isinstance(cs, str) or not all(r in new for r in ("requests==2.31.0", "flask>=2.0", "-r other.txt")):
                    bad = {"clause": "a manifest that is not valid UTF-8 is left untouched (or rewritten without losing content)", "encoding": enc,
                           "before": data[:80].hex(), "after": after[:120].hex(), "changeset": str(cs)[:200], "after is utf-8": ok_utf8}
    return evals, bad


def run_writers(tier, seed):
    from codemodder.dependency import Security, DefusedXML
    rng = random.Random(seed)
    n = 60 if tier == "thorough" else 14
    tmp = tempfile.mkdtemp(prefix="pyvc_c14_")
    records = []
    try:
        for name, gen in (("requirements.txt", gen_requirements), ("pyproject.toml", gen_pyproject), ("setup.cfg", gen_setup_cfg),
                          ("setup.py", gen_setup_py)):
            evals, bads, samples = 0, {}, []
            for fname, text, aux in gen(rng, n):
                for deps in ([Security], [DefusedXML]):
                    w = evaluate(tmp, fname, text, aux, deps)
                    evals += 1
                    if len(samples) < 1:
                        samples.append({"manifest": text, "dependency": str(deps[0].requirement)})
                    if w is not None:
                        # one record per KIND of failure (clause + exception type), so that a listed known finding does not hide another
                        obs = str(w.get("observed", ""))
                        kind = w.get("clause", "") + ((": " + obs.split(":")[0][:60]) if obs.startswith("raised") else "")
                        bads.setdefault(kind, dict(w, manifest=text, dependency=str(deps[0].requirement)))
            func = {"requirements.txt": "codemodder.dependency_management.requirements_txt_writer.RequirementsTxtWriter.add_to_file",
                    "pyproject.toml": "codemodder.dependency_management.pyproject_writer.PyprojectWriter.add_to_file",
                    "setup.cfg": "codemodder.dependency_management.setupcfg_writer.SetupCfgWriter.add_to_file",
                    "setup.py": "codemodder.dependency_management.setup_py_writer.SetupPyWriter.add_to_file"}[name]
            base_id = f"bounded:writer chain keeps {name} valid, complete, duplicate-free"
            clause = "parse(after) ok; declared(before) kept; each new requirement once; declared already => untouched; second run adds nothing; change line numbers inside the file"
            if not bads:
                records.append({"kind": "bounded", "id": base_id, "status": "discharged", "bound": BOUND, "evaluations": evals, "witness": None,
                                "samples": samples, "func": func, "reason": "", "replay": None, "clause": clause})
            for kind, bad in bads.items():
                records.append({"kind": "bounded", "id": f"{base_id} [{kind}]", "status": "refuted", "bound": BOUND, "evaluations": evals,
                                "witness": bad, "samples": samples, "func": func,
                                "reason": f"{name}: clause '{bad.get('clause')}' fails on a generated manifest",
                                "replay": {"reproduced": True, "detail": json.dumps(bad, default=str)[:2000]}, "clause": clause})
        ev, b = run_undecodable(tmp)
        records.append({"kind": "bounded", "id": "bounded:writer chain leaves a manifest it cannot decode untouched", "status": "refuted" if b else "discharged",
                        "bound": "requirements.txt in UTF-16 (BOM) and latin-1", "evaluations": ev, "witness": b,
                        "func": "codemodder.dependency_management.requirements_txt_writer.RequirementsTxtWriter._parse_file",
                        "reason": "" if not b else "a non-UTF-8 manifest was rewritten and lost content", "replay": {"reproduced": True, "detail": json.dumps(b)} if b else None,
                        "clause": "bytes(after) == bytes(before) unless every declared requirement survives"})
    finally:
        shutil.rmtree(tmp, ignore_errors=True)
    return records


def run_report_notice(tier="quick", seed=0):
    """BOUNDED stand-in for the last sentence of C14 ("when no manifest can be updated the run still succeeds and the report says so"): the
    real CLI with TWO codemods that need the same package on a project whose only manifest cannot be updated (pyproject.toml with dynamic
    dependencies): exit 0, manifest byte-identical, and no result whose changesets do not contain the manifest may claim that the dependency
    was added to it."""
    import contextlib
    import io
    import logging
    import re
    from codemodder.codemodder import run
    pyproject = ('[build-system]\nrequires = ["setuptools>=61"]\nbuild-backend = "setuptools.build_meta"\n\n[project]\nname = "p"\nversion = "0.1"\n'
                 'dynamic = ["dependencies"]\n\n[tool.setuptools.dynamic]\ndependencies = {file = ["deps/runtime.in"]}\n')
    code = ("import os\nimport requests\nfrom flask import Flask, request\n\napp = Flask(__name__)\n\n\n@app.route(\"/example\")\ndef example():\n"
            "    url = request.args[\"url\"]\n    requests.get(url)\n    command = request.args[\"command\"]\n    return os.popen(command).read()\n")
    issues = {"issues": [{"rule": "pythonsecurity:S5144", "status": "OPEN", "component": "code.py", "key": "A",
                          "textRange": {"startLine": 11, "endLine": 11, "startOffset": 4, "endOffset": 21}},
                         {"rule": "pythonsecurity:S2076", "status": "OPEN", "component": "code.py", "key": "B",
                          "textRange": {"startLine": 13, "endLine": 13, "startOffset": 11, "endOffset": 28}}]}
    claim = re.compile(r"automatically added this dependency to your project's `([^`]+)` file")
    base = tempfile.mkdtemp(prefix="pyvc_c14n_")
    evals, bad = 0, None
    cwd = os.getcwd()
    try:
        os.chdir(base)
        for order in (["sonar:python/url-sandbox", "sonar:python/sandbox-process-creation"],):
            root = os.path.join(base, f"p{evals}")
            os.makedirs(os.path.join(root, "deps"))
            open(os.path.join(root, "pyproject.toml"), "w").write(pyproject)
            open(os.path.join(root, "deps", "runtime.in"), "w").write("flask\nrequests\n")
            open(os.path.join(root, "code.py"), "w").write(code)
            ip = os.path.join(base, f"issues{evals}.json")
            json.dump(issues, open(ip, "w"))
            out = os.path.join(base, f"o{evals}.codetf")
            rootlog = logging.getLogger()
            for h in list(rootlog.handlers):
                rootlog.removeHandler(h)
            with contextlib.redirect_stdout(io.StringIO()), contextlib.redirect_stderr(io.StringIO()):
                try:
                    rc = run([root, "--output", out, "--sonar-issues-json", ip, "--codemod-include=" + ",".join(order)])
                except BaseException as e:      # noqa
                    rc = f"raised {type(e).__name__}: {e}"
            evals += 1
            w = None
            if rc != 0:
                w = {"clause": "the run still succeeds", "status": rc}
            elif open(os.path.join(root, "pyproject.toml")).read() != pyproject:
                w = {"clause": "a manifest that cannot be updated is left untouched"}
            else:
                rep = json.load(open(out))
                fired = 0
                for r in rep["results"]:
                    paths = {cs["path"] for cs in r["changeset"]}
                    fired += bool(paths)
                    m = claim.search(r.get("description") or "")
                    if m and m.group(1) not in {os.path.basename(p) for p in paths} and m.group(1) not in paths:
                        w = {"clause": "the report does not claim a dependency was added to a file that was not changed", "codemod": r["codemod"],
                             "claimed file": m.group(1), "changed files": sorted(paths)}
                if w is None and fired < 2:
                    w = {"clause": "vacuity guard: both codemods fire", "results with changes": fired}
            if w is not None and bad is None:
                bad = dict(w, codemods=order)
    finally:
        os.chdir(cwd)
        shutil.rmtree(base, ignore_errors=True)
    return {"kind": "bounded", "id": "bounded:the report says so when no manifest could be updated (two codemods needing one package)",
            "status": "refuted" if bad else "discharged", "bound": "one project with an un-updatable pyproject.toml, two Sonar-driven codemods needing `security`",
            "evaluations": evals, "witness": bad, "func": "codemodder.context.CodemodExecutionContext.process_dependencies",
            "reason": "" if not bad else f"clause '{bad.get('clause')}' fails", "replay": {"reproduced": True, "detail": json.dumps(bad, default=str)} if bad else None,
            "clause": "exit 0; manifest byte-identical; no description claims an update of a file outside the result's own changesets"}


def extra_checks(tier="quick", seed=0):
    return run_writers(tier, seed) + [run_report_notice(tier, seed)]
