"""C13: line-level include/exclude honoured; change entries name the edited line.

Deductive part (contracts/visitor.py, file_context.py, base_codemod.py, code_directory.py): match_line, the line filter, node_is_selected,
file_line_patterns, the line lists handed to the file context, report_change* line numbers.
Typestate part (pyvc/guardscan.py): in EVERY transformer class a change is recorded only on a path on which the line filter (for
SAST codemods also the result filter) returned True for a node.
"""
META = {
    "explanation": "filter kernels are deductive; that each transformer consults them before recording a change is a path-sensitive typestate scan of all transformer classes",
    "out_of_reach": ["that the node handed to the filter is the node that is edited", "libcst PositionProvider"],
}


SITES = [
    # (codemod id, header lines, one single-line candidate site, footer)
    ("pixee:python/use-generator", "", "x{n} = sum([i for i in range({n})])", ""),
    ("pixee:python/fix-assert-tuple", "", "assert ({n}, 'msg')", ""),
    ("pixee:python/subprocess-shell-false", "import subprocess\n", "subprocess.run(cmd{n}, shell=True)", ""),
    ("pixee:python/harden-pickle-load", "import pickle\n", "pickle.load(f{n})", ""),
    ("pixee:python/https-connection", "import urllib3\n", "urllib3.HTTPConnectionPool('h{n}')", ""),
    # context the transformer needs (the `app = Flask(...)` binding) lies on a line that the include filters do not select
    ("pixee:python/secure-flask-session-configuration", "from flask import Flask\napp = Flask(__name__)\n", "app.config.update(SESSION_COOKIE_SECURE=False, K{n}={n})", ""),
    ("pixee:python/unused-imports", "from os.path import (\n", "    name{n},", ")\nimport sys\nprint(sys.argv)\n"),
]


def run_line_filters(tier="quick", seed=0):
    """BOUNDED stand-in: the property's own oracle on detector-less codemods through the real CLI - a file with three single-line candidate
    sites, every site excluded / included in turn and in pairs (`path:line` relative to the target): a site is rewritten iff it is
    permitted, and the change entries name exactly the rewritten site lines."""
    import contextlib
    import difflib
    import io
    import json
    import logging
    import os
    import shutil
    import tempfile
    from codemodder.codemodder import run
    base = tempfile.mkdtemp(prefix="pyvc_c13_")
    evals, bad = 0, None
    cwd = os.getcwd()
    try:
        os.chdir(base)
        for cid, header, site, footer in SITES:
            unused = cid.endswith("unused-imports")
            names = ["basename", "dirname", "join"]
            body, lines_of_sites = [], []
            text = header
            for n in (1, 2, 3):
                if not unused:
                    text += f"y{n} = {n}\n"
                lines_of_sites.append(text.count("\n") + 1)
                text += (site.replace("name{n}", names[n - 1]) if unused else site.format(n=n)) + "\n"
            text += footer
            subsets = [("none", None, None), ("exclude", [lines_of_sites[0]], None), ("exclude", lines_of_sites[1:], None),
                       ("include", None, [lines_of_sites[1]]), ("include", None, [lines_of_sites[0], lines_of_sites[2]])]
            if tier != "thorough":
                subsets = subsets[:4]
            for mode, exc, inc in subsets:
                root = os.path.join(base, f"p{evals}")
                os.makedirs(root)
                open(os.path.join(root, "f.py"), "w").write(text)
                out = os.path.join(base, "o.codetf")
                args = [root, "--output", out, "--codemod-include", cid]
                if exc:
                    args += ["--path-exclude", ",".join(f"f.py:{l}" for l in exc)]
                if inc:
                    args += ["--path-include", ",".join(f"f.py:{l}" for l in inc)]
                rootlog = logging.getLogger()
                for h in list(rootlog.handlers):
                    rootlog.removeHandler(h)
                with contextlib.redirect_stdout(io.StringIO()), contextlib.redirect_stderr(io.StringIO()):
                    rc = run(args)
                evals += 1
                after = open(os.path.join(root, "f.py")).read()
                norm = lambda ls: [l.strip().rstrip(",)") for l in ls]      # a kept name may lose its trailing comma: not an edit of that site
                sm = difflib.SequenceMatcher(None, norm(text.splitlines()), norm(after.splitlines()), autojunk=False)
                touched = set()
                for tag, i1, i2, j1, j2 in sm.get_opcodes():
                    if tag in ("replace", "delete"):
                        touched.update(range(i1 + 1, i2 + 1))
                permitted = set(lines_of_sites) if mode == "none" else (set(lines_of_sites) - set(exc or [])) if exc else set(inc or [])
                rep = json.load(open(out)) if os.path.exists(out) else {"results": []}
                change_lines = sorted(c["lineNumber"] for r in rep["results"] for cs in r["changeset"] if cs["path"] == "f.py" for c in cs["changes"])
                rewritten = sorted(touched & set(lines_of_sites))
                w = None
                if rc != 0:
                    w = {"clause": "the run completes", "status": rc}
                elif rewritten != sorted(permitted):
                    w = {"clause": "site lines rewritten == permitted site lines", "rewritten": rewritten, "permitted": sorted(permitted)}
                elif sorted(set(change_lines) & set(lines_of_sites)) != rewritten or any(l in lines_of_sites and l not in permitted for l in change_lines):
                    w = {"clause": "the change entries name exactly the rewritten site lines", "change lines": change_lines, "rewritten": rewritten}
                if w is not None and bad is None:
                    bad = dict(w, codemod=cid, mode=mode, exclude=exc, include=inc, sites=lines_of_sites, program=text)
    finally:
        os.chdir(cwd)
        shutil.rmtree(base, ignore_errors=True)
    return {"kind": "bounded", "id": "bounded:line includes / excludes through the real CLI (three single-line sites per codemod)", "status": "refuted" if bad else "discharged",
            "bound": f"{len(SITES)} detector-less codemods x 4-5 exclude/include subsets of three single-line sites (incl. names on their own line of a multi-line import)",
            "evaluations": evals, "witness": bad, "func": "core_codemods (per-codemod use of the selection filters)",
            "reason": "" if not bad else f"clause '{bad.get('clause')}' fails for {bad.get('codemod')} ({bad.get('mode')})",
            "replay": {"reproduced": True, "detail": json.dumps(bad, default=str)[:2000]} if bad else None,
            "clause": "lines rewritten == permitted sites and {change.lineNumber} (on site lines) == lines rewritten"}


def extra_checks(tier="quick", seed=0):
    from contracts.props.C06 import guard_obligations
    return guard_obligations("line") + [run_line_filters(tier, seed)]
