"""C13: line-level include/exclude honoured; change entries name the edited line.

Deductive part (contracts/visitor.py, file_context.py, base_codemod.py, code_directory.py): match_line, the line filter, node_is_selected,
file_line_patterns, the line lists handed to the file context, report_change* line numbers.
Typestate part (pyvc/guardscan.py): in EVERY transformer class a change is recorded only on a path on which the line filter (for
SAST codemods also the result filter) returned True for a node.
"""
META = {
    "explanation": "filter kernels are deductive; that each transformer consults them before recording a change is a path-sensitive typestate scan of all transformer classes",
    "out_of_reach": ["that the node handed to the filter is the node that is edited", "libcst PositionProvider"],
}


def extra_checks(tier="quick", seed=0):
    from contracts.props.C06 import guard_obligations
    return guard_obligations("line")
