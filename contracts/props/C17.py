"""C17: exactly the requested codemods run, once each, in the requested order.

Deductive part: codemodder.run executes apply_codemods on exactly match_codemods(include, exclude, sast_only = issues-json or
sarif) and apply_codemods is a sequential fold over that list (ghost event trace).
BOUNDED stand-ins (never counted as proved): CodemodRegistry.match_codemods against the reference selection of the property
statement (Python's `re` cannot be given an SMT contract for data-dependent patterns), CsvListAction, and the independence
of the registry order from the hash seed.
"""
from __future__ import annotations

import itertools
import json
import os
import re
import subprocess
import sys

META = {
    "explanation": "run -> match_codemods -> apply_codemods chain is deductive; the selection function itself is a bounded stand-in",
    "out_of_reach": ["argparse delivering the option values"],
}
SANITY_TARGET = "codemodder.codemods.base_visitor.match_line"
TARGETS = ["codemodder.codemods.base_visitor.match_line"]

BOUND = ("include/exclude lists of <= 3 entries drawn from ids, unknown ids and '*' patterns (prefix/infix/suffix/overlapping, pieces that overlap inside an id, regex "
         "metacharacters) over a synthetic registry of 6 codemods and the real registry; both eligibility modes")


class _Fake:
    def __init__(self, origin, name):
        self.origin, self.name = origin, name
        self.id = f"{origin}:python/{name}"
        self.default_extensions = [".py"]

    def __repr__(self):
        return self.id


def glob_match(pattern, ident):
    """the property's wildcard: '*' matches any string, everything else is literal, the whole id must match"""
    return re.fullmatch(".*".join(re.escape(p) for p in pattern.split("*")), ident) is not None


def reference(codemods, include, exclude, sast_only, default_excluded):
    include = include or []
    if include:
        out = []
        for name in include:
            if "*" in name:
                cands = [c for c in codemods if glob_match(name, c.id)]
            else:
                cands = [c for c in codemods if c.id == name]
            for c in cands:
                if c not in out:
                    out.append(c)
        return out
    exclude = exclude or default_excluded
    out = []
    for c in codemods:
        if any((glob_match(e, c.id) if "*" in e else e == c.id) for e in exclude):
            continue
        if bool(sast_only) != (c.origin == "pixee"):
            out.append(c)
    return out


def _registry(fakes):
    from codemodder.registry import CodemodRegistry
    r = CodemodRegistry()
    for f in fakes:
        r._codemods_by_id[f.id] = f
    return r


def run_match(tier, seed):
    from codemodder import registry as regmod
    fakes = [_Fake("pixee", "secure-random"), _Fake("pixee", "django-debug-flag-on"), _Fake("sonar", "secure-random"),
             _Fake("pixee", "order-imports"), _Fake("semgrep", "django-secure-set-cookie"), _Fake("pixee", "secure-tempfile")]
    reg = _registry(fakes)
    pool = [f.id for f in fakes[:4]] + ["pixee:python/nope", "pixee:python/secure*", "*django*", "*django", "sonar:*", "pixee.python/secure*",
                                         "*", "(*", "*secure-random", "pixee:python/*-on",
                                         # literal pieces that could overlap inside an id (head/tail sharing a character, repeated pieces)
                                         "pixee:python/secure-*-random", "*random*random", "pixee:python/secure-random*random", "*on*on"]
    lists = [[]] + [[a] for a in pool] + [list(p) for p in itertools.permutations(pool, 2)]
    if tier == "thorough":
        import random
        rng = random.Random(seed)
        lists += [list(rng.sample(pool, 3)) for _ in range(3000)]
    evals, bad, samples = 0, None, []
    for mode in ("include", "exclude"):
        for lst in lists:
            for sast in (False, True, None, ["x.json"]):
                inc, exc = (lst, None) if mode == "include" else (None, lst)
                want = [c.id for c in reference(reg.codemods, inc, exc, sast, regmod.DEFAULT_EXCLUDED_CODEMODS)]
                try:
                    got = [c.id for c in reg.match_codemods(inc, exc, sast_only=sast)]
                except Exception as e:      # noqa
                    got = f"raised {type(e).__name__}: {e}"
                evals += 1
                if len(samples) < 3 and lst:
                    samples.append({"mode": mode, "list": lst, "sast_only": str(sast), "selected": got})
                if got != want and bad is None:
                    bad = {"mode": mode, "list": lst, "sast_only": str(sast), "match_codemods": got, "reference": want}
    # the real registry: every id alone, prefix/suffix patterns derived from real ids
    real = regmod.load_registered_codemods()
    ids = real.ids
    pats = sorted({i.split("/")[0] + "/*" for i in ids} | {"*" + i.split("/")[1][-6:] for i in ids[:40]} | {i[:-3] + "*" for i in ids[:40]})
    for p in pats + ids[:60]:
        want = [c.id for c in reference(real.codemods, [p], None, False, regmod.DEFAULT_EXCLUDED_CODEMODS)]
        got = [c.id for c in real.match_codemods([p], None)]
        evals += 1
        if got != want and bad is None:
            bad = {"mode": "include(real registry)", "list": [p], "match_codemods": got[:8], "reference": want[:8]}
    return {"kind": "bounded", "id": "bounded:CodemodRegistry.match_codemods == reference selection", "status": "refuted" if bad else "discharged",
            "bound": BOUND, "evaluations": evals, "witness": bad, "samples": samples, "func": "codemodder.registry.CodemodRegistry.match_codemods",
            "reason": "" if not bad else "match_codemods disagrees with the reference selection",
            "replay": {"reproduced": True, "detail": json.dumps(bad, default=str)[:1500]} if bad else None,
            "clause": "sequence of selected ids == reference (listed ids and wildcard matches in the order given, each once, unknown ignored; exclusion/default mode: eligible minus named/matched)"}


def run_csv(tier, seed):
    from codemodder.cli import CsvListAction
    import argparse
    evals, bad = 0, None
    alphabet = ["a", "b", "c", "a*", ""]
    for n in range(1, 5):
        for combo in itertools.product(alphabet, repeat=n):
            ns = argparse.Namespace()
            CsvListAction(option_strings=["--x"], dest="x")(None, ns, ",".join(combo))
            want = list(dict.fromkeys(combo))
            evals += 1
            if ns.x != want and bad is None:
                bad = {"value": ",".join(combo), "parsed": ns.x, "reference": want}
    return {"kind": "bounded", "id": "bounded:CsvListAction keeps order, drops repeats", "status": "refuted" if bad else "discharged",
            "bound": "all comma lists of <= 4 entries over 5 tokens", "evaluations": evals, "witness": bad, "func": "codemodder.cli.CsvListAction.__call__",
            "reason": "" if not bad else "CsvListAction disagrees with order-preserving de-duplication",
            "replay": {"reproduced": True, "detail": json.dumps(bad)} if bad else None, "clause": "items == first occurrences of the comma-split value, in order"}


def run_parse_args(tier, seed, options=("--path-include", "--path-exclude", "--codemod-include", "--codemod-exclude")):
    """the CSV list options reach the namespace verbatim (comma-split, first occurrences, in order) through the REAL parse_args"""
    from codemodder.cli import parse_args
    from codemodder.registry import load_registered_codemods
    import contextlib, io
    reg = load_registered_codemods()
    pools = {
        "--path-include": [".venv/**", "./src/*.py", "/abs/x.py", "a*b.py", "..//x", "src/**", "*.py", ".scripts/*.py", "x.py:3", " spaced .py"],
        "--path-exclude": [".venv/**", ".tox/**", "./tests/*", "/t", "**/.git/**", "a.py", ".coverage*", "tests/**"],
        "--codemod-include": ["pixee:python/secure-random", "pixee:python/secure*", "*django*", "nope", "pixee:python/url-sandbox", "*"],
        "--codemod-exclude": ["pixee:python/secure-random", "pixee:python/secure*", "*django*", "nope", "*"],
    }
    evals, bad = 0, None
    for opt in options:
        pool = pools[opt]
        lists = [[a] for a in pool] + [list(p) for p in itertools.permutations(pool, 2)] + [[a, a] for a in pool[:3]]
        if tier == "thorough":
            lists += [list(p) for p in itertools.permutations(pool[:6], 3)]
        for lst in lists:
            argv = ["some/dir", "--output", "out.codetf", opt, ",".join(lst)]
            want = list(dict.fromkeys(lst))
            try:
                with contextlib.redirect_stderr(io.StringIO()), contextlib.redirect_stdout(io.StringIO()):
                    ns = parse_args(argv, reg)
                got = getattr(ns, opt[2:].replace("-", "_"))
            except SystemExit as e:
                got = f"SystemExit({e.code})"
            except Exception as e:      # noqa
                got = f"raised {type(e).__name__}: {e}"
            evals += 1
            if got != want and bad is None:
                bad = {"argv": argv, "namespace value": got, "reference": want}
    return {"kind": "bounded", "id": "bounded:parse_args delivers the comma-list options verbatim", "status": "refuted" if bad else "discharged",
            "bound": "lists of <= 2 (thorough: 3) entries from pools of 5-10 patterns/ids per option (leading '.', './', '/', spaces, wildcards, path:line)",
            "evaluations": evals, "witness": bad, "func": "codemodder.cli.parse_args",
            "reason": "" if not bad else "the option value in the namespace is not the comma-split, order-preserving, de-duplicated list the user gave",
            "replay": {"reproduced": True, "detail": json.dumps(bad, default=str)} if bad else None,
            "clause": "namespace.<option> == first occurrences of value.split(','), in order, each entry unchanged"}


def run_hashseed(tier, seed):
    """registry order must be a function of the set of entry points, not of set iteration order (hash seed)"""
    code = "from codemodder.registry import load_registered_codemods as l; import json; print(json.dumps(l().ids))"
    orders = {}
    seeds = range(6) if tier == "thorough" else range(4)
    for hs in seeds:
        env = dict(os.environ, PYTHONHASHSEED=str(hs))
        out = subprocess.run([sys.executable, "-c", code], capture_output=True, text=True, env=env, timeout=300)
        orders[hs] = out.stdout.strip().splitlines()[-1] if out.stdout.strip() else f"error: {out.stderr[-300:]}"
    distinct = sorted(set(orders.values()))
    bad = None
    if len(distinct) > 1:
        a, b = json.loads(distinct[0]), json.loads(distinct[1]) if not distinct[1].startswith("error") else []
        first = next((i for i, (x, y) in enumerate(zip(a, b)) if x != y), None)
        bad = {"hash seeds": list(orders), "distinct orders": len(distinct), "first difference at index": first,
               "order A": a[first:first + 2] if first is not None else None, "order B": b[first:first + 2] if first is not None else None}
    return {"kind": "bounded", "id": "bounded:registry order independent of PYTHONHASHSEED", "status": "refuted" if bad else "discharged",
            "bound": f"PYTHONHASHSEED in {list(seeds)}", "evaluations": len(orders), "witness": bad, "func": "codemodder.registry.load_registered_codemods",
            "reason": "" if not bad else "the order of registry.ids (hence of default runs and of wildcard matches) changes with the hash seed",
            "replay": {"reproduced": True, "detail": json.dumps(bad)} if bad else None, "clause": "registry.ids is the same list for every hash seed"}


def extra_checks(tier="quick", seed=0):
    return [run_match(tier, seed), run_csv(tier, seed), run_parse_args(tier, seed, ("--codemod-include", "--codemod-exclude")), run_hashseed(tier, seed)]
