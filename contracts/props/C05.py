META = {
    "explanation": "file selection: filter_files / match_files are BOUNDED stand-ins (native evaluation of the set-comprehension specification on generated inputs); the per-file write frame (only the processed file can change) is the deductive part, shared with C03/C04",
    "out_of_reach": ["'every such file containing a fixable construct is fixed' (needs the transformers)",
                     "Path.rglob / is_symlink semantics (files_for_directory, BaseParser.find_file_locations): trusted"],
}
SANITY_TARGET = "codemodder.codemods.base_visitor.match_line"
TARGETS = ["codemodder.codemods.base_visitor.match_line"]


def run_symlinks(tier, seed):
    """BOUNDED stand-in: nothing outside the target is written through a symlink.  The ghost file system of the deductive part maps
    PATHS to contents (two spellings of one physical file are two keys), so aliasing through symlinks is checked natively: a project with
    symlinked manifests / sources pointing outside is built, the REAL discovery (package stores, file list) and the REAL writers run, and
    the files outside must be byte-identical afterwards."""
    import json
    import os
    import shutil
    import tempfile
    from pathlib import Path
    from codemodder.code_directory import files_for_directory, match_files
    from codemodder.dependency import Security
    from codemodder.dependency_management import DependencyManager
    from codemodder.project_analysis.python_repo_manager import PythonRepoManager
    manifests = {"requirements.txt": "requests==2.0\n", "pyproject.toml": '[project]\nname = "p"\nversion = "1"\ndependencies = ["requests"]\n',
                 "setup.cfg": "[options]\ninstall_requires =\n    requests\n", "setup.py": "from setuptools import setup\nsetup(name='p',\n  install_requires=['requests'],\n)\n"}
    evals, bad = 0, None
    root = Path(tempfile.mkdtemp(prefix="pyvc_c05_"))
    try:
        for name, text in manifests.items():
            for where in ("", "sub/pkg"):
                for kind in ("file-symlink", "real"):
                    case = root / f"case{evals}"
                    proj, outside = case / "proj", case / "outside"
                    (proj / where).mkdir(parents=True)
                    outside.mkdir(parents=True)
                    (outside / name).write_text(text)
                    (outside / "mod.py").write_text("import os\n")
                    if kind == "file-symlink":
                        os.symlink(outside / name, proj / where / name)
                    else:
                        (proj / where / name).write_text(text)
                    os.symlink(outside / "mod.py", proj / "linked_mod.py")
                    (proj / "real_mod.py").write_text("import os\n")
                    os.symlink(proj / "real_mod.py", proj / "alias_mod.py")          # a link that stays INSIDE the project is not a file to analyse either
                    shared = case / "proj-shared"                                    # sibling whose name starts with the target's name
                    shared.mkdir()
                    (shared / name).write_text(text)
                    (proj / "vendored").mkdir(exist_ok=True)
                    os.symlink(shared / name, proj / "vendored" / name)
                    evals += 1
                    w = None
                    listed = match_files(proj, files_for_directory(proj), None, ["*.py", "**/*.py"])
                    for p in listed:
                        if p.is_symlink() or proj.resolve() not in p.resolve().parents:
                            w = {"clause": "files to analyse lie physically inside the target", "path": str(p)}
                    try:
                        stores = PythonRepoManager(proj).package_stores
                        for st in stores:
                            DependencyManager(st, proj).write([Security], dry_run=False)
                    except Exception as e:      # noqa
                        w = w or {"clause": "discovery and writers do not raise", "observed": f"{type(e).__name__}: {e}"}
                    if (outside / name).read_text() != text or (outside / "mod.py").read_text() != "import os\n" or (shared / name).read_text() != text:
                        w = {"clause": "nothing outside the target directory is written, directly or through symlinks",
                             "manifest": f"{where}/{name} -> outside/{name}" if kind == "file-symlink" else name,
                             "outside file after the run": (outside / name).read_text(), "sibling proj-shared file after the run": (shared / name).read_text()}
                    if w is not None and bad is None:
                        bad = dict(w, case=f"{kind} {where or '.'}/{name}")
    finally:
        shutil.rmtree(root, ignore_errors=True)
    return {"kind": "bounded", "id": "bounded:nothing outside the target is written through symlinks", "status": "refuted" if bad else "discharged",
            "bound": "4 manifest formats x {target root, nested dir} x {regular file, symlink to a file outside}, plus a symlinked and a regular .py file",
            "evaluations": evals, "witness": bad, "func": "codemodder.project_analysis.file_parsers.base_parser.BaseParser.find_file_locations",
            "reason": "" if not bad else f"clause '{bad.get('clause')}' fails",
            "replay": {"reproduced": True, "detail": json.dumps(bad, default=str)} if bad else None,
            "clause": "files discovered for analysis / dependency updates are regular files inside the target; files outside are byte-identical after the writers ran"}


def run_context_paths(tier, seed):
    """BOUNDED stand-in: the two file selections of a real CodemodExecutionContext against the statement: find-and-fix codemods use the
    user's patterns or the defaults (default includes / default excludes); SAST-driven codemods honour the user's patterns WITHOUT the
    default excludes."""
    import fnmatch
    import json
    import shutil
    import tempfile
    from pathlib import Path
    from codemodder.code_directory import DEFAULT_EXCLUDED_PATHS, DEFAULT_INCLUDED_PATHS
    from codemodder.context import CodemodExecutionContext
    from codemodder.project_analysis.python_repo_manager import PythonRepoManager
    from codemodder.providers import load_providers
    from codemodder.registry import load_registered_codemods
    root = Path(tempfile.mkdtemp(prefix="pyvc_c05ctx_"))
    files = ["app.py", "pkg/mod.py", "pkg/data.txt", "tests/test_app.py", "build/gen.py", ".venv/lib/x.py", "docs/conf.py", "src/tests/helper.py"]
    for f in files:
        (root / f).parent.mkdir(parents=True, exist_ok=True)
        (root / f).write_text("x = 1\n")
    reg = load_registered_codemods()

    def sel(names, inc, exc):
        return sorted(n for n in names if any(fnmatch.fnmatch(n, q.split(":")[0]) for q in inc)
                      and not any(":" not in q and fnmatch.fnmatch(n, q) for q in exc))
    cases = [([], []), (["*.py", "**/*.py"], []), ([], ["pkg/*"]), (["tests/*.py"], []), (["**/*.py"], ["docs/*"]), (["pkg/mod.py:1"], []), ([], ["app.py:1"])]
    evals, bad = 0, None
    try:
        for inc, exc in cases:
            ctx = CodemodExecutionContext(root, True, False, reg, load_providers(), PythonRepoManager(root), inc, exc, {}, 1)
            rel = lambda ps: sorted(str(p.relative_to(root)) for p in ps)
            got_ff = rel(ctx.find_and_fix_paths)
            want_ff = sel(files, inc or DEFAULT_INCLUDED_PATHS, exc or DEFAULT_EXCLUDED_PATHS)
            got_sast = rel(ctx.filter_paths(ctx.files_to_analyze))
            want_sast = sel(files, inc or list(reg.default_include_paths), exc)
            evals += 2
            if got_ff != want_ff and bad is None:
                bad = {"selection": "find-and-fix", "include": inc, "exclude": exc, "selected": got_ff, "reference": want_ff}
            if got_sast != want_sast and bad is None:
                bad = {"selection": "SAST (user patterns, no default excludes)", "include": inc, "exclude": exc, "selected": got_sast, "reference": want_sast}
    finally:
        shutil.rmtree(root, ignore_errors=True)
    return {"kind": "bounded", "id": "bounded:context file selections (find-and-fix: defaults when no pattern; SAST: no default excludes)",
            "status": "refuted" if bad else "discharged", "bound": f"{len(cases)} include/exclude combinations over a tree of {len(files)} files (tests/, build/, .venv/, docs/, non-Python)",
            "evaluations": evals, "witness": bad, "func": "codemodder.context.CodemodExecutionContext.filter_paths",
            "reason": "" if not bad else f"{bad['selection']} selection differs from the reference",
            "replay": {"reproduced": True, "detail": json.dumps(bad, default=str)} if bad else None,
            "clause": "find_and_fix_paths == spec(include or default includes, exclude or default excludes); filter_paths(all files) == spec(include or registry default includes, exclude)"}


def run_cli_selection(tier="quick", seed=0):
    """BOUNDED stand-in for "every selected file containing a fixable construct is fixed, and only those": the real CLI with a detector-less
    codemod over a tree whose files all contain the trigger; files changed == reference selection (defaults / user patterns)."""
    import contextlib
    import fnmatch
    import io
    import json
    import logging
    import os
    import shutil
    import tempfile
    from codemodder.code_directory import DEFAULT_EXCLUDED_PATHS, DEFAULT_INCLUDED_PATHS
    from codemodder.codemodder import run
    trigger = "x = sum([i for i in range(3)])\n"
    files = ["app.py", "pkg/settings.local.py", "pkg/models.generated.py", "pkg/0002_auto_1.2.py", "tests/test_app.py", "build/gen.py", "docs/conf.py",
             "pkg/notes.txt", "pkg.v2/mod.py"]
    cases = [([], []), (["pkg/*.py"], []), ([], ["pkg/*"]), (["**/*.py"], ["docs/*"])]

    def sel(inc, exc):
        return sorted(n for n in files if any(fnmatch.fnmatch(n, q) for q in inc) and not any(fnmatch.fnmatch(n, q) for q in exc) and n.endswith(".py"))
    base = tempfile.mkdtemp(prefix="pyvc_c05cli_")
    evals, bad = 0, None
    cwd = os.getcwd()
    try:
        os.chdir(base)
        for inc, exc in cases:
            root = os.path.join(base, f"p{evals}")
            for f in files:
                os.makedirs(os.path.dirname(os.path.join(root, f)), exist_ok=True)
                open(os.path.join(root, f), "w").write(trigger)
            args = [root, "--output", os.path.join(base, "o.codetf"), "--codemod-include", "pixee:python/use-generator"]
            if inc:
                args += ["--path-include", ",".join(inc)]
            if exc:
                args += ["--path-exclude", ",".join(exc)]
            rootlog = logging.getLogger()
            for h in list(rootlog.handlers):
                rootlog.removeHandler(h)
            with contextlib.redirect_stdout(io.StringIO()), contextlib.redirect_stderr(io.StringIO()):
                rc = run(args)
            evals += 1
            changed = sorted(f for f in files if open(os.path.join(root, f)).read() != trigger)
            want = sel(inc or DEFAULT_INCLUDED_PATHS, exc or DEFAULT_EXCLUDED_PATHS)
            if (rc != 0 or changed != want) and bad is None:
                bad = {"include": inc, "exclude": exc, "status": rc, "files changed": changed, "reference": want,
                       "not fixed although selected": sorted(set(want) - set(changed)), "fixed although not selected": sorted(set(changed) - set(want))}
    finally:
        os.chdir(cwd)
        shutil.rmtree(base, ignore_errors=True)
    return {"kind": "bounded", "id": "bounded:files changed by a find-and-fix codemod == selected files that contain the construct (real CLI)",
            "status": "refuted" if bad else "discharged", "bound": f"{len(cases)} include/exclude combinations over {len(files)} files (dotted base names, dotted directory, tests/, build/, non-Python)",
            "evaluations": evals, "witness": bad, "func": "codemodder.codemods.base_codemod.FindAndFixCodemod.get_files_to_analyze",
            "reason": "" if not bad else "the set of files changed differs from the reference selection",
            "replay": {"reproduced": True, "detail": json.dumps(bad, default=str)} if bad else None,
            "clause": "set of files changed == {f : f has the trigger and f in spec(include, exclude)}"}


def extra_checks(tier="quick", seed=0):
    import os
    import codemodder
    from pyvc import framescan
    from pyvc.api import REG
    src = os.path.dirname(os.path.dirname(os.path.abspath(codemodder.__file__)))
    from contracts.props.C17 import run_parse_args
    return framescan.obligations(src, REG.contracts) + [run_parse_args(tier, seed, ("--path-include", "--path-exclude")), run_symlinks(tier, seed), run_context_paths(tier, seed), run_cli_selection(tier, seed)]
