META = {
    "explanation": "file selection: filter_files / match_files are BOUNDED stand-ins (native evaluation of the set-comprehension specification on generated inputs); the per-file write frame (only the processed file can change) is the deductive part, shared with C03/C04",
    "out_of_reach": ["'every such file containing a fixable construct is fixed' (needs the transformers)",
                     "Path.rglob / is_symlink semantics (files_for_directory, BaseParser.find_file_locations): trusted"],
}
SANITY_TARGET = "codemodder.codemods.base_visitor.match_line"
TARGETS = ["codemodder.codemods.base_visitor.match_line"]


def run_symlinks(tier, seed):
    """BOUNDED stand-in: nothing outside the target is written through a symlink.  The ghost file system of the deductive part maps
    PATHS to contents (two spellings of one physical file are two keys), so aliasing through symlinks is checked natively: a project with
    symlinked manifests / sources pointing outside is built, the REAL discovery (package stores, file list) and the REAL writers run, and
    the files outside must be byte-identical afterwards."""
    import json
    import os
    import shutil
    import tempfile
    from pathlib import Path
    from codemodder.code_directory import files_for_directory, match_files
    from codemodder.dependency import Security
    from codemodder.dependency_management import DependencyManager
    from codemodder.project_analysis.python_repo_manager import PythonRepoManager
    manifests = {"requirements.txt": "requests==2.0\n", "pyproject.toml": '[project]\nname = "p"\nversion = "1"\ndependencies = ["requests"]\n',
                 "setup.cfg": "[options]\ninstall_requires =\n    requests\n", "setup.py": "from setuptools import setup\nsetup(name='p',\n  install_requires=['requests'],\n)\n"}
    evals, bad = 0, None
    root = Path(tempfile.mkdtemp(prefix="pyvc_c05_"))
    try:
        for name, text in manifests.items():
            for where in ("", "sub/pkg"):
                for kind in ("file-symlink", "real"):
                    case = root / f"case{evals}"
                    proj, outside = case / "proj", case / "outside"
                    (proj / where).mkdir(parents=True)
                    outside.mkdir(parents=True)
                    (outside / name).write_text(text)
                    (outside / "mod.py").write_text("import os\n")
                    if kind == "file-symlink":
                        os.symlink(outside / name, proj / where / name)
                    else:
                        (proj / where / name).write_text(text)
                    os.symlink(outside / "mod.py", proj / "linked_mod.py")
                    (proj / "real_mod.py").write_text("import os\n")
                    evals += 1
                    w = None
                    listed = match_files(proj, files_for_directory(proj), None, ["*.py", "**/*.py"])
                    for p in listed:
                        if p.is_symlink() or proj.resolve() not in p.resolve().parents:
                            w = {"clause": "files to analyse lie physically inside the target", "path": str(p)}
                    try:
                        stores = PythonRepoManager(proj).package_stores
                        for st in stores:
                            DependencyManager(st, proj).write([Security], dry_run=False)
                    except Exception as e:      # noqa
                        w = w or {"clause": "discovery and writers do not raise", "observed": f"{type(e).__name__}: {e}"}
                    if (outside / name).read_text() != text or (outside / "mod.py").read_text() != "import os\n":
                        w = {"clause": "nothing outside the target directory is written, directly or through symlinks",
                             "manifest": f"{where}/{name} -> outside/{name}" if kind == "file-symlink" else name,
                             "outside file after the run": (outside / name).read_text()}
                    if w is not None and bad is None:
                        bad = dict(w, case=f"{kind} {where or '.'}/{name}")
    finally:
        shutil.rmtree(root, ignore_errors=True)
    return {"kind": "bounded", "id": "bounded:nothing outside the target is written through symlinks", "status": "refuted" if bad else "discharged",
            "bound": "4 manifest formats x {target root, nested dir} x {regular file, symlink to a file outside}, plus a symlinked and a regular .py file",
            "evaluations": evals, "witness": bad, "func": "codemodder.project_analysis.file_parsers.base_parser.BaseParser.find_file_locations",
            "reason": "" if not bad else f"clause '{bad.get('clause')}' fails",
            "replay": {"reproduced": True, "detail": json.dumps(bad, default=str)} if bad else None,
            "clause": "files discovered for analysis / dependency updates are regular files inside the target; files outside are byte-identical after the writers ran"}


def run_context_paths(tier, seed):
    """BOUNDED stand-in: the two file selections of a real CodemodExecutionContext against the statement: find-and-fix codemods use the
    user's patterns or the defaults (default includes / default excludes); SAST-driven codemods honour the user's patterns WITHOUT the
    default excludes."""
    import fnmatch
    import json
    import shutil
    import tempfile
    from pathlib import Path
    from codemodder.code_directory import DEFAULT_EXCLUDED_PATHS, DEFAULT_INCLUDED_PATHS
    from codemodder.context import CodemodExecutionContext
    from codemodder.project_analysis.python_repo_manager import PythonRepoManager
    from codemodder.providers import load_providers
    from codemodder.registry import load_registered_codemods
    root = Path(tempfile.mkdtemp(prefix="pyvc_c05ctx_"))
    files = ["app.py", "pkg/mod.py", "pkg/data.txt", "tests/test_app.py", "build/gen.py", ".venv/lib/x.py", "docs/conf.py", "src/tests/helper.py"]
    for f in files:
        (root / f).parent.mkdir(parents=True, exist_ok=True)
        (root / f).write_text("x = 1\n")
    reg = load_registered_codemods()

    def sel(names, inc, exc):
        return sorted(n for n in names if any(fnmatch.fnmatch(n, q.split(":")[0]) for q in inc)
                      and not any(":" not in q and fnmatch.fnmatch(n, q) for q in exc))
    cases = [([], []), (["*.py", "**/*.py"], []), ([], ["pkg/*"]), (["tests/*.py"], []), (["**/*.py"], ["docs/*"]), (["pkg/mod.py:1"], []), ([], ["app.py:1"])]
    evals, bad = 0, None
    try:
        for inc, exc in cases:
            ctx = CodemodExecutionContext(root, True, False, reg, load_providers(), PythonRepoManager(root), inc, exc, {}, 1)
            rel = lambda ps: sorted(str(p.relative_to(root)) for p in ps)
            got_ff = rel(ctx.find_and_fix_paths)
            want_ff = sel(files, inc or DEFAULT_INCLUDED_PATHS, exc or DEFAULT_EXCLUDED_PATHS)
            got_sast = rel(ctx.filter_paths(ctx.files_to_analyze))
            want_sast = sel(files, inc or list(reg.default_include_paths), exc)
            evals += 2
            if got_ff != want_ff and bad is None:
                bad = {"selection": "find-and-fix", "include": inc, "exclude": exc, "selected": got_ff, "reference": want_ff}
            if got_sast != want_sast and bad is None:
                bad = {"selection": "SAST (user patterns, no default excludes)", "include": inc, "exclude": exc, "selected": got_sast, "reference": want_sast}
    finally:
        shutil.rmtree(root, ignore_errors=True)
    return {"kind": "bounded", "id": "bounded:context file selections (find-and-fix: defaults when no pattern; SAST: no default excludes)",
            "status": "refuted" if bad else "discharged", "bound": f"{len(cases)} include/exclude combinations over a tree of {len(files)} files (tests/, build/, .venv/, docs/, non-Python)",
            "evaluations": evals, "witness": bad, "func": "codemodder.context.CodemodExecutionContext.filter_paths",
            "reason": "" if not bad else f"{bad['selection']} selection differs from the reference",
            "replay": {"reproduced": True, "detail": json.dumps(bad, default=str)} if bad else None,
            "clause": "find_and_fix_paths == spec(include or default includes, exclude or default excludes); filter_paths(all files) == spec(include or registry default includes, exclude)"}


def extra_checks(tier="quick", seed=0):
    import os
    import codemodder
    from pyvc import framescan
    from pyvc.api import REG
    src = os.path.dirname(os.path.dirname(os.path.abspath(codemodder.__file__)))
    from contracts.props.C17 import run_parse_args
    return framescan.obligations(src, REG.contracts) + [run_parse_args(tier, seed, ("--path-include", "--path-exclude")), run_symlinks(tier, seed), run_context_paths(tier, seed)]
