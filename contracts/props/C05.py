META = {
    "explanation": "file selection: filter_files / match_files are BOUNDED stand-ins (native evaluation of the set-comprehension specification on generated inputs); the per-file write frame (only the processed file can change) is the deductive part, shared with C03/C04",
    "out_of_reach": ["'every such file containing a fixable construct is fixed' (needs the transformers)",
                     "Path.rglob / is_symlink semantics (files_for_directory, BaseParser.find_file_locations): trusted"],
}
SANITY_TARGET = "codemodder.codemods.base_visitor.match_line"
TARGETS = ["codemodder.codemods.base_visitor.match_line"]


def extra_checks(tier="quick", seed=0):
    import os
    import codemodder
    from pyvc import framescan
    from pyvc.api import REG
    src = os.path.dirname(os.path.dirname(os.path.abspath(codemodder.__file__)))
    from contracts.props.C17 import run_parse_args
    return framescan.obligations(src, REG.contracts) + [run_parse_args(tier, seed, ("--path-include", "--path-exclude"))]
