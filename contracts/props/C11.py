"""C11: results do not depend on scheduling, worker count, hash seed or sibling files.

Deductive part: the only thread pool is bounded by --max-workers (ghost pool_bounds), _process_file writes only its own file and its own
file context, results are merged under the codemod's own key, match_files / the registry are order-independent (bounded stand-ins in C05/C17).
Thread interleavings themselves are outside this family; what makes them harmless is that per-file state lives in per-file objects.  That is
checked as a syntactic obligation over every class of the two packages (pyvc/framescan.shared_state_obligations): no class attribute holding
a mutable object is mutated through instances unless __init__ re-binds it; and no worker results are consumed in COMPLETION order
(`as_completed`, `wait`, `imap_unordered`): the pool is read through `executor.map` only.
"""
META = {
    "explanation": "worker bound and per-file frames are deductive; absence of shared mutable class state is a syntactic scan of all classes",
    "out_of_reach": ["thread interleavings (argued from the frame contracts and the shared-state scan, not proved)", "module-level mutable globals"],
}


def extra_checks(tier="quick", seed=0):
    import os
    import codemodder
    from pyvc import framescan
    src = os.path.dirname(os.path.dirname(os.path.abspath(codemodder.__file__)))
    return framescan.shared_state_obligations(src) + framescan.completion_order_obligations(src)
