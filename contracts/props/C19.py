"""C19: regex and XML pipelines edit only their targets and preserve everything else.

Deductive part (contracts/pipelines.py): both regex pipelines (_apply and apply: per-line edits, one change per edited line
with the findings of that 1-based line, untouched lines byte-identical, dry-run, faithful diff) and the XML pipeline's apply
(frame, dry-run, failure handling, diff of what is written).

BOUNDED stand-in (never counted as proved): the XML re-serialisation itself runs inside xml.sax / expat callbacks
(XMLGenerator + LexicalHandler), which the engine cannot execute symbolically.  For it every document of a generated family
(bound below) is written to a scratch directory, the REAL XMLTransformerPipeline is run with an attribute map / a new
element, and the event stream of the rewritten file (independent expat reader: elements, attributes, character data, CDATA
sections, comments, processing instructions, DOCTYPE ids) is compared with the event stream of the original with exactly the
requested edit applied -- whitespace-only differences aside, as the property allows.
"""
from __future__ import annotations

import functools
import itertools
import json
import random
import shutil
import tempfile
from pathlib import Path
from xml.parsers import expat

META = {
    "explanation": "regex pipelines and the XML pipeline's frame/diff are deductive; the SAX re-serialisation is a bounded stand-in",
    "out_of_reach": ["xml.sax / expat callback order, XMLGenerator escaping (library code driven by C callbacks)"],
}

BOUND = ("documents: optional XML declaration x {no DOCTYPE, <!DOCTYPE root>} x root with <= 3 children drawn from a pool of 13 element shapes "
         "(attributes incl. entities and both quote kinds, text with entities, CDATA with markup characters, comments directly after a start tag, "
         "processing instructions, namespaces, mixed content, empty elements, non-ASCII); edits: attribute map on <target>, new element under <cfg>")


# ---- independent reader ------------------------------------------------------------------------------------------------------
def events(data: bytes):
    """event stream of a document; character data is merged per run and split into CDATA / non-CDATA parts"""
    out = []
    p = expat.ParserCreate()
    p.buffer_text = False
    state = {"cdata": False}

    def chars(s):
        kind = "cdata" if state["cdata"] else "text"
        if out and out[-1][0] == kind:
            out[-1] = (kind, out[-1][1] + s)
        else:
            out.append((kind, s))
    p.StartElementHandler = lambda n, a: out.append(("start", n, tuple(sorted(a.items()))))
    p.EndElementHandler = lambda n: out.append(("end", n))
    p.CharacterDataHandler = chars
    p.CommentHandler = lambda d: out.append(("comment", d))
    p.ProcessingInstructionHandler = lambda t, d: out.append(("pi", t, d))

    def start_cdata():
        state["cdata"] = True
        out.append(("cdata", ""))

    def end_cdata():
        state["cdata"] = False
        out.append(("cdata-end",))
    p.StartCdataSectionHandler = start_cdata
    p.EndCdataSectionHandler = end_cdata
    p.StartDoctypeDeclHandler = lambda name, sysid, pubid, internal: out.append(("doctype", name, sysid, pubid))
    p.Parse(data, True)
    return out


def normalise(evs):
    """whitespace-only differences aside: whitespace inside character data outside CDATA is dropped, empty text runs vanish"""
    res = []
    for e in evs:
        if e[0] == "text":
            t = "".join(e[1].split())
            if not t:
                continue
            if res and res[-1][0] == "text":
                res[-1] = ("text", res[-1][1] + t)
                continue
            res.append(("text", t))
        elif e[0] == "cdata-end":
            continue
        else:
            res.append(e)
    return res


# ---- document family ---------------------------------------------------------------------------------------------------------
CHILDREN = [
    '<target attr="old" other="k&amp;v"/>',
    "<target attr='o' title=\"it's\"></target>",
    '<item>text &amp; more &lt;here&gt;</item>',
    '<script><![CDATA[if (a<b && c>d) { x = "]"; }]]></script>',
    '<cfg><!-- note directly after the start tag --></cfg>',
    '<cfg>\n    <entry key="1"/>\n  </cfg>',
    '<?proc some data?>',
    '<ns:el xmlns:ns="urn:x" ns:a="1">n</ns:el>',
    'lead<b>bold</b>tail',
    '<e></e>',
    '<name>café 中</name>',
    '<script><!-- inline --><![CDATA[\nif (a < b) { go(); }\n]]></script>',
    '<p>x<!-- c -->\ny</p>',
]
PROLOGS = ['<?xml version="1.0" encoding="utf-8"?>\n', ""]
DOCTYPES = ["", "<!DOCTYPE root>\n"]


def documents(rng, n):
    combos = []
    for k in (1, 2, 3):
        combos += list(itertools.permutations(range(len(CHILDREN)), k))
    rng.shuffle(combos)
    singles = [(i,) for i in range(len(CHILDREN))]
    for idxs in singles + combos[:n]:
        for pro, dt in itertools.product(PROLOGS, DOCTYPES):
            if dt and rng.random() < 0.6 and len(idxs) > 1:
                continue
            body = "\n  ".join(CHILDREN[i] for i in idxs)
            yield f"{pro}{dt}<root>\n  {body}\n</root>\n"


# ---- expected edit -----------------------------------------------------------------------------------------------------------
def expect_attr(evs, name, new_attrs):
    out, hit = [], 0
    for e in evs:
        if e[0] == "start" and e[1] == name:
            d = dict(e[2])
            d.update(new_attrs)
            out.append(("start", name, tuple(sorted(d.items()))))
            hit += 1
        else:
            out.append(e)
    return out, hit


def expect_new_element(evs, parent, child, content):
    out, hit = [], 0
    for e in evs:
        if e[0] == "end" and e[1] == parent:
            out += [("start", child, ()), ("text", content), ("end", child)]
            hit += 1
        out.append(e)
    return out, hit


def run_xml(tier, seed):
    from codemodder.codemods.xml_transformer import (ElementAttributeXMLTransformer, NewElement, NewElementXMLTransformer,
                                                     XMLTransformerPipeline)
    from codemodder.file_context import FileContext
    import logging
    rng = random.Random(seed)
    n = 400 if tier == "thorough" else 60
    tmp = Path(tempfile.mkdtemp(prefix="pyvc_c19_"))
    logging.disable(logging.CRITICAL)

    class Ctx:
        dry_run = False
        directory = tmp

    edits = {
        "attribute map": (functools.partial(ElementAttributeXMLTransformer, name_attributes_map={"target": {"attr": "new", "added": "1"}}),
                          lambda evs: expect_attr(evs, "target", {"attr": "new", "added": "1"})),
        "new element": (functools.partial(NewElementXMLTransformer, new_elements=[NewElement(name="added", parent_name="cfg", content="x")]),
                        lambda evs: expect_new_element(evs, "cfg", "added", "x")),
    }
    records = []
    try:
        for ename, (factory, expect) in edits.items():
            evals, bad, samples = 0, None, []
            for doc in documents(rng, n):
                f = tmp / "doc.xml"
                data = doc.encode("utf-8")
                f.write_bytes(data)
                before = events(data)
                want, hits = expect(before)
                fc = FileContext(tmp, f)
                try:
                    cs = XMLTransformerPipeline(factory).apply(Ctx, fc, None)
                except Exception as e:      # noqa
                    cs = f"raised {type(e).__name__}: {e}"
                after = f.read_bytes()
                evals += 1
                w = None
                if isinstance(cs, str):
                    w = {"clause": "the pipeline does not raise", "observed": cs}
                elif cs is None:
                    if after != data:
                        w = {"clause": "no changeset => file byte-identical"}
                    elif hits and not fc.failures:
                        w = {"clause": "a document with a target element is edited or listed as failed", "targets": hits}
                else:
                    try:
                        got = events(after)
                    except expat.ExpatError as e:
                        got = None
                        w = {"clause": "the rewritten file is well-formed XML", "observed": str(e), "after": after.decode("utf-8", "replace")}
                    if got is not None and normalise(got) != normalise(want):
                        a, b = normalise(got), normalise(want)
                        i = next((k for k, (x, y) in enumerate(zip(a, b)) if x != y), min(len(a), len(b)))
                        w = {"clause": "every other element, attribute, character data (incl. CDATA), comment, PI and the DOCTYPE is unchanged",
                             "first difference": {"rewritten": a[i:i + 2], "expected": b[i:i + 2]}, "after": after.decode("utf-8", "replace")}
                    elif got is not None and len(cs.changes) != hits:
                        w = {"clause": "one change per edit", "changes": len(cs.changes), "edits": hits}
                if len(samples) < 1:
                    samples.append({"document": doc})
                if w is not None and bad is None:
                    bad = dict(w, document=doc, edit=ename)
            records.append({"kind": "bounded", "id": f"bounded:XML pipeline preserves non-target content ({ename})", "status": "refuted" if bad else "discharged",
                            "bound": BOUND, "evaluations": evals, "witness": bad, "samples": samples,
                            "func": "codemodder.codemods.xml_transformer.XMLTransformerPipeline.apply",
                            "reason": "" if not bad else f"clause '{bad.get('clause')}' fails on a generated document",
                            "replay": {"reproduced": True, "detail": json.dumps(bad, default=str, ensure_ascii=False)[:2500]} if bad else None,
                            "clause": "events(after) == events(before) with exactly the requested edit applied, whitespace-only character data aside"})
    finally:
        logging.disable(logging.NOTSET)
        shutil.rmtree(tmp, ignore_errors=True)
    return records


def run_xml_findings(tier, seed):
    """SAST-driven use of the XML pipeline: only the element that carries a finding (start line and column) is edited"""
    from codemodder.codemods.xml_transformer import ElementAttributeXMLTransformer, XMLTransformerPipeline
    from codemodder.file_context import FileContext
    from codemodder.result import LineInfo
    from core_codemods.sonar.results import SonarLocation, SonarResult
    import logging
    tmp = Path(tempfile.mkdtemp(prefix="pyvc_c19f_"))
    logging.disable(logging.CRITICAL)

    class Ctx:
        dry_run = False
        directory = tmp
    docs = [
        "<root>\n  <target attr=\"old\"/>\n  <target attr=\"old\"/>\n  <other><target attr=\"old\"/></other>\n</root>\n",
        "<root>\n  <a>\n    <target attr=\"old\"/>\n  </a>\n  <b>\n    <target attr=\"old\"/>\n  </b>\n</root>\n",
    ]
    evals, bad = 0, None
    try:
        for doc in docs:
            lines = doc.splitlines()
            sites = [(i + 1, l.index("<target")) for i, l in enumerate(lines) if "<target" in l]
            for flagged in sites:
                f = tmp / "doc.xml"
                f.write_bytes(doc.encode("utf-8"))
                line, col = flagged
                loc = SonarLocation(file=f, start=LineInfo(line, col + 1, ""), end=LineInfo(line, col + 20, ""))
                res = [SonarResult(rule_id="r", locations=[loc], finding_id="k")]
                fc = FileContext(tmp, f, [], [], res)
                factory = functools.partial(ElementAttributeXMLTransformer, name_attributes_map={"target": {"attr": "new"}})
                try:
                    cs = XMLTransformerPipeline(factory).apply(Ctx, fc, res)
                except Exception as e:      # noqa
                    cs = f"raised {type(e).__name__}: {e}"
                after = f.read_bytes().decode("utf-8")
                evals += 1
                import re as _re
                occ = _re.findall(r'<target attr="(old|new)"', after)          # the target elements of the rewritten document, in order
                edited = [k for k, v in enumerate(occ) if v == "new"]
                want = [sites.index(flagged)]
                w = None
                if isinstance(cs, str):
                    w = {"clause": "the pipeline does not raise", "observed": cs}
                elif edited != want or cs is None or [c.lineNumber for c in cs.changes] != [line]:
                    w = {"clause": "only the element that carries the finding is edited; one change, on its line", "finding at": [line, col + 1],
                         "edited target elements (ordinals)": edited, "expected": want,
                         "change lines": None if cs is None or isinstance(cs, str) else [c.lineNumber for c in cs.changes]}
                if w is not None and bad is None:
                    bad = dict(w, document=doc)
    finally:
        logging.disable(logging.NOTSET)
        shutil.rmtree(tmp, ignore_errors=True)
    return {"kind": "bounded", "id": "bounded:XML pipeline edits only the element that carries a finding", "status": "refuted" if bad else "discharged",
            "bound": "2 documents with 2-3 same-named elements at equal and different indentation; each element flagged in turn", "evaluations": evals,
            "witness": bad, "func": "codemodder.codemods.xml_transformer.XMLTransformer.match_result",
            "reason": "" if not bad else f"clause '{bad.get('clause')}' fails", "replay": {"reproduced": True, "detail": json.dumps(bad, default=str)} if bad else None,
            "clause": "edited elements == {the flagged element}; change line numbers == [its line]"}


def extra_checks(tier="quick", seed=0):
    return run_xml(tier, seed) + [run_xml_findings(tier, seed)]
