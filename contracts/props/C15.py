"""C15: the CodeTF report is well-formed, complete and internally consistent.

Deductive part (contracts/context.py, pipelines.py, run.py): compile_results (one result per executed codemod, in order, built from that
codemod's keys), changeset invariants of the pipelines (path, non-empty diff, >= 1 change, failed/changed disjoint), Change validators,
write_report status.

BOUNDED stand-in (never counted as proved): `update_finding_metadata` (the rule name/url back-fill applied to every changeset on its way into
the report) is used by compile_results through an assumed contract - "the same changesets, only finding.rule.name / url filled in".  That
contract is checked by running the real function on generated changesets.
"""
from __future__ import annotations

import copy
import itertools
import json

META = {
    "explanation": "report construction is deductive; the metadata back-fill it trusts is a bounded stand-in",
    "out_of_reach": ["pydantic serialisation", "the vendored CodeTF JSON schema (not available offline)"],
}


def run_update_finding_metadata(tier="quick", seed=0):
    from codemodder.codemods.base_codemod import ToolRule
    from codemodder.codetf import Change, ChangeSet, Finding, Rule
    from codemodder.utils.update_finding_metadata import update_finding_metadata
    rules = [ToolRule(id="r1", name="Rule One", url="https://x/r1"), ToolRule(id="r2", name="Rule Two", url="https://x/r2")]

    def finding(i):
        return Finding(id=["r1", "r2", "other"][i % 3], rule=Rule(id=["r1", "r2", "other"][i % 3], name="old", url=None))
    shapes = []
    for nchanges in (1, 2):
        for fcounts in itertools.product((None, 0, 1, 2), repeat=nchanges):
            shapes.append(fcounts)
    evals, bad = 0, None
    for tool_rules in ([], rules):
        for shape in shapes:
            changes = []
            for k, fc in enumerate(shape):
                fs = None if fc is None else [finding(k + j) for j in range(fc)]
                changes.append(Change(lineNumber=k + 1, description=f"d{k}", findings=fs))
            css = [ChangeSet(path="a.py", diff="--- \n+++ \n@@ -1 +1 @@\n-x\n+y\n", changes=changes),
                   ChangeSet(path="requirements.txt", diff="+dep\n", changes=[Change(lineNumber=1, description="dep", findings=None)])]
            before = copy.deepcopy(css)
            try:
                out = update_finding_metadata(tool_rules, css)
            except Exception as e:      # noqa
                out = f"raised {type(e).__name__}: {e}"
            evals += 1
            w = None
            if isinstance(out, str):
                w = {"clause": "total", "observed": out}
            elif len(out) != len(before):
                w = {"clause": "same number of changesets", "before": len(before), "after": len(out)}
            else:
                for b, a in zip(before, out):
                    if (a.path, a.diff) != (b.path, b.diff) or len(a.changes) != len(b.changes):
                        w = {"clause": "every changeset keeps its path, diff and ALL its change entries", "path": b.path, "changes before": len(b.changes), "changes after": len(a.changes)}
                        break
                    for cb, ca in zip(b.changes, a.changes):
                        if (ca.lineNumber, ca.description) != (cb.lineNumber, cb.description) or len(ca.findings or []) != len(cb.findings or []):
                            w = {"clause": "every change keeps its line, description and findings", "path": b.path}
                            break
                        for fb, fa in zip(cb.findings or [], ca.findings or []):
                            rule = next((r for r in tool_rules if r.id == fb.id), None)
                            want = (rule.name, rule.url) if rule else (fb.rule.name, fb.rule.url)
                            if fa.id != fb.id or (fa.rule.name, fa.rule.url) != want:
                                w = {"clause": "only rule name / url of findings of the codemod's own rules are filled in", "finding": fb.id, "after": [fa.rule.name, fa.rule.url], "expected": list(want)}
                                break
            if w is not None and bad is None:
                bad = dict(w, tool_rules=[r.id for r in tool_rules], findings_per_change=[str(x) for x in shape])
    return {"kind": "bounded", "id": "bounded:update_finding_metadata returns the same changesets with only rule name/url filled in",
            "status": "refuted" if bad else "discharged", "bound": "changesets with 1-2 changes carrying None / 0 / 1 / 2 findings of 3 rule ids; with and without tool rules",
            "evaluations": evals, "witness": bad, "func": "codemodder.utils.update_finding_metadata.update_finding_metadata",
            "reason": "" if not bad else f"clause '{bad.get('clause')}' fails", "replay": {"reproduced": True, "detail": json.dumps(bad, default=str)} if bad else None,
            "clause": "len, path, diff, change entries (line, description, number of findings) unchanged; finding.rule.(name,url) == the tool rule's when its id matches"}


def extra_checks(tier="quick", seed=0):
    # the report of a real multi-codemod run: one result per executed codemod, in execution order, per-codemod content as in single runs
    from contracts.props.C09 import run_batch_vs_single
    rep = run_batch_vs_single(tier, seed)
    rep = dict(rep, id="bounded:report of a real multi-codemod run: one result per executed codemod, in execution order (real CLI)")
    return [run_update_finding_metadata(tier, seed), rep]
