"""C15: the CodeTF report is well-formed, complete and internally consistent.

Deductive part (contracts/context.py, pipelines.py, run.py): compile_results (one result per executed codemod, in order, built from that
codemod's keys), changeset invariants of the pipelines (path, non-empty diff, >= 1 change, failed/changed disjoint), Change validators,
write_report status.

BOUNDED stand-in (never counted as proved): `update_finding_metadata` (the rule name/url back-fill applied to every changeset on its way into
the report) is used by compile_results through an assumed contract - "the same changesets, only finding.rule.name / url filled in".  That
contract is checked by running the real function on generated changesets.
"""
from __future__ import annotations

import os

import copy
import itertools
import json

META = {
    "explanation": "report construction is deductive; the metadata back-fill it trusts is a bounded stand-in",
    "out_of_reach": ["pydantic serialisation", "the vendored CodeTF JSON schema (not available offline)"],
}


def run_update_finding_metadata(tier="quick", seed=0):
    from codemodder.codemods.base_codemod import ToolRule
    from codemodder.codetf import Change, ChangeSet, Finding, Rule
    from codemodder.utils.update_finding_metadata import update_finding_metadata
    rules = [ToolRule(id="r1", name="Rule One", url="https://x/r1"), ToolRule(id="r2", name="Rule Two", url="https://x/r2")]

    def finding(i):
        return Finding(id=["r1", "r2", "other"][i % 3], rule=Rule(id=["r1", "r2", "other"][i % 3], name="old", url=None))
    shapes = []
    for nchanges in (1, 2):
        for fcounts in itertools.product((None, 0, 1, 2), repeat=nchanges):
            shapes.append(fcounts)
    evals, bad = 0, None
    for tool_rules in ([], rules):
        for shape in shapes:
            changes = []
            for k, fc in enumerate(shape):
                fs = None if fc is None else [finding(k + j) for j in range(fc)]
                changes.append(Change(lineNumber=k + 1, description=f"d{k}", findings=fs))
            css = [ChangeSet(path="a.py", diff="--- \n+++ \n@@ -1 +1 @@\n-x\n+y\n", changes=changes),
                   ChangeSet(path="requirements.txt", diff="+dep\n", changes=[Change(lineNumber=1, description="dep", findings=None)])]
            before = copy.deepcopy(css)
            try:
                out = update_finding_metadata(tool_rules, css)
            except Exception as e:      # noqa
                out = f"raised {type(e).__name__}: {e}"
            evals += 1
            w = None
            if isinstance(out, str):
                w = {"clause": "total", "observed": out}
            elif len(out) != len(before):
                w = {"clause": "same number of changesets", "before": len(before), "after": len(out)}
            else:
                for b, a in zip(before, out):
                    if (a.path, a.diff) != (b.path, b.diff) or len(a.changes) != len(b.changes):
                        w = {"clause": "every changeset keeps its path, diff and ALL its change entries", "path": b.path, "changes before": len(b.changes), "changes after": len(a.changes)}
                        break
                    for cb, ca in zip(b.changes, a.changes):
                        if (ca.lineNumber, ca.description) != (cb.lineNumber, cb.description) or len(ca.findings or []) != len(cb.findings or []):
                            w = {"clause": "every change keeps its line, description and findings", "path": b.path}
                            break
                        for fb, fa in zip(cb.findings or [], ca.findings or []):
                            rule = next((r for r in tool_rules if r.id == fb.id), None)
                            want = (rule.name, rule.url) if rule else (fb.rule.name, fb.rule.url)
                            if fa.id != fb.id or (fa.rule.name, fa.rule.url) != want:
                                w = {"clause": "only rule name / url of findings of the codemod's own rules are filled in", "finding": fb.id, "after": [fa.rule.name, fa.rule.url], "expected": list(want)}
                                break
            if w is not None and bad is None:
                bad = dict(w, tool_rules=[r.id for r in tool_rules], findings_per_change=[str(x) for x in shape])
    return {"kind": "bounded", "id": "bounded:update_finding_metadata returns the same changesets with only rule name/url filled in",
            "status": "refuted" if bad else "discharged", "bound": "changesets with 1-2 changes carrying None / 0 / 1 / 2 findings of 3 rule ids; with and without tool rules",
            "evaluations": evals, "witness": bad, "func": "codemodder.utils.update_finding_metadata.update_finding_metadata",
            "reason": "" if not bad else f"clause '{bad.get('clause')}' fails", "replay": {"reproduced": True, "detail": json.dumps(bad, default=str)} if bad else None,
            "clause": "len, path, diff, change entries (line, description, number of findings) unchanged; finding.rule.(name,url) == the tool rule's when its id matches"}


def run_report_identity(tier="quick", seed=0):
    """BOUNDED: the report file of a real run, read back as UTF-8 JSON: one result per executed codemod in execution order also when two
    codemods of different origins share their short name, and diffs carry the file's text (non-ASCII included) unescaped-equal."""
    import contextlib, io, json, logging, shutil, tempfile
    from codemodder.codemodder import run
    base = tempfile.mkdtemp(prefix="pyvc_c15_")
    evals, bad = 0, None
    cwd = os.getcwd()

    def cli(args):
        rootlog = logging.getLogger()
        for h in list(rootlog.handlers):
            rootlog.removeHandler(h)
        with contextlib.redirect_stdout(io.StringIO()), contextlib.redirect_stderr(io.StringIO()):
            return run(args)
    try:
        os.chdir(base)
        sonar = os.path.join(base, "sonar.json")
        json.dump({"issues": []}, open(sonar, "w"))
        orders = [["pixee:python/invert-boolean-check", "sonar:python/invert-boolean-check"],
                  ["sonar:python/fix-assert-tuple", "pixee:python/use-generator", "pixee:python/fix-assert-tuple"]]
        for k, wanted in enumerate(orders):
            root = os.path.join(base, f"o{k}")
            os.makedirs(root)
            open(os.path.join(root, "code.py"), "w").write("x = 1\nif not x == 2:\n    assert (x, 'm')\n    print(any([y for y in (x,)]))\n")
            out = os.path.join(base, f"o{k}.codetf")
            rc = cli([root, "--output", out, "--codemod-include", ",".join(wanted), "--sonar-issues-json", sonar])
            evals += 1
            if rc != 0:
                continue   # selection refused: the clause is not engaged
            try:
                got = [r["codemod"] for r in json.loads(open(out, "rb").read().decode("utf-8"))["results"]]
            except Exception as e:  # noqa: BLE001
                got = repr(e)
            if got != wanted and bad is None:
                bad = {"clause": "exactly one result per executed codemod, in execution order (origins that share a short name included)",
                       "executed": wanted, "reported": got}
        texts = ["caf\u00e9 \u65e5\u672c", "\u00fc\u00f1\u00ee \U0001f600", "plain"]
        for k, t in enumerate(texts):
            root = os.path.join(base, f"u{k}")
            os.makedirs(root)
            line = f"flag = any([c for c in '{t}'])"
            open(os.path.join(root, "code.py"), "w", encoding="utf-8").write(line + "\n")
            out = os.path.join(base, f"u{k}.codetf")
            rc = cli([root, "--output", out, "--codemod-include", "pixee:python/use-generator"])
            evals += 1
            w = None
            try:
                rep = json.loads(open(out, "rb").read().decode("utf-8"))
                diffs = [cs["diff"] for r in rep["results"] for cs in r["changeset"]]
                if rc != 0:
                    w = {"clause": "the run completes", "status": rc}
                elif len(diffs) != 1 or ("-" + line) not in diffs[0].splitlines():
                    w = {"clause": "the diff of the report carries the file's text", "line": line, "diffs": diffs}
            except Exception as e:  # noqa: BLE001
                w = {"clause": "the report is UTF-8 JSON", "observed": repr(e), "head": open(out, "rb").read()[:200].decode("latin-1") if os.path.exists(out) else None}
            if w is not None and bad is None:
                bad = dict(w, text=t)
    finally:
        os.chdir(cwd)
        shutil.rmtree(base, ignore_errors=True)
    return {"kind": "bounded", "id": "bounded:report file read back: one result per executed codemod across origins; diffs carry the text (real CLI)",
            "status": "refuted" if bad else "discharged", "bound": f"{evals} runs (2 selections with same-name codemods of two origins, 3 non-ASCII/ASCII sources)",
            "evaluations": evals, "witness": bad, "func": "codemodder.codemodder.run",
            "reason": "" if not bad else f"clause '{bad.get('clause')}' fails",
            "replay": {"reproduced": True, "detail": json.dumps(bad, default=str)[:2000]} if bad else None,
            "clause": "[r.codemod for r in report.results] == executed ids; json(utf-8(report file)).results[*].changeset[*].diff contains the original line"}


def extra_checks(tier="quick", seed=0):
    # the report of a real multi-codemod run: one result per executed codemod, in execution order, per-codemod content as in single runs
    from contracts.props.C09 import run_batch_vs_single
    rep = run_batch_vs_single(tier, seed)
    rep = dict(rep, id="bounded:report of a real multi-codemod run: one result per executed codemod, in execution order (real CLI)")
    return [run_update_finding_metadata(tier, seed), rep, run_report_identity(tier, seed)]
