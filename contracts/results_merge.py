"""C12: no finding is lost or altered when result sets are combined."""
from pyvc.api import contract, external, spec, lemma

_INNER = "dict[Path, list[Result]]"
_E = "typed_empty('list[Result]')"
contract("codemodder.result.list_dict_or", props=["C12"],
         params={"dictionary": _INNER, "other": _INNER}, returns=_INNER,
         invariants={0: ["dom(result_dict) == dom(dictionary) | dom(other)",
                         "all(implies(any(seq[j] == key for j in range(k)), lookup(result_dict, key, " + _E + ") == lookup(dictionary, key, " + _E + ") + lookup(other, key, " + _E + ")) for key in ANY('Path'))",
                         "all(implies(not any(seq[j] == key for j in range(k)), lookup(result_dict, key, " + _E + ") == lookup(other | dictionary, key, " + _E + ")) for key in ANY('Path'))"]},
         ensures=[("keys are the union", "dom(result) == dom(dictionary) | dom(other)"),
                  ("every key holds the findings of both operands, left first (multiset union, nothing dropped or duplicated)",
                   "all(lookup(result, key, " + _E + ") == lookup(dictionary, key, " + _E + ") + lookup(other, key, " + _E + ") for key in ANY('Path'))")])

_RS = "ResultSet"
_EI = "typed_empty('dict[Path, list[Result]]')"
spec("get2", {"rs": _RS, "r": "str", "p": "Path"}, "list[Result]", body="lookup(lookup(rs, r, " + _EI + "), p, " + _E + ")",
     doc="findings stored for (rule, file); [] when absent")
_UNION = ("all(get2(result, r, p) == get2(self, r, p) + get2(other, r, p) for r in ANY('str') for p in ANY('Path'))")
contract("codemodder.result.ResultSet.__or__", props=["C12"], functional=True, reads=[],
         params={"self": _RS, "other": _RS}, returns=_RS,
         invariants={0: ["dom(result) == dom(self) | dom(other)",
                         "all(implies(any(seq[j] == r for j in range(k)), all(lookup(lookup(result, r, " + _EI + "), p, " + _E + ") == get2(self, r, p) + get2(other, r, p) for p in ANY('Path'))"
                         " and dom(lookup(result, r, " + _EI + ")) == dom(lookup(self, r, " + _EI + ")) | dom(lookup(other, r, " + _EI + "))) for r in ANY('str'))"]},
         ensures=[("rule keys are the union", "dom(result) == dom(self) | dom(other)"),
                  ("for every rule and file: the findings of both operands, left first - nothing lost, duplicated or overwritten", _UNION),
                  ("per rule, file keys are the union",
                   "all(dom(lookup(result, r, " + _EI + ")) == dom(lookup(self, r, " + _EI + ")) | dom(lookup(other, r, " + _EI + ")) for r in ANY('str'))")])

contract("codemodder.result.ResultSet.__ior__", props=["C12"],
         params={"self": _RS, "other": _RS}, returns=_RS, modifies=["self"],
         ensures=[("in-place merge is the same multiset union as `|`",
                   "all(get2(self, r, p) == get2(old(self), r, p) + get2(other, r, p) for r in ANY('str') for p in ANY('Path'))"),
                  ("rule keys are the union", "dom(self) == dom(old(self)) | dom(other)"),
                  ("returns the accumulator itself", "result == self")])

# ---- the four accumulators: every file's findings reach the codemod (fold of the verified merge) ---------------------------
_READERS = {
    "core_codemods.sonar.api.process_sonar_findings": ("SonarResultSet", "SonarResultSet.from_json", "sonar_json_files", "core_codemods.sonar.results.SonarResultSet.from_json"),
    "core_codemods.defectdojo.api._process_results": ("DefectDojoResultSet", "DefectDojoResultSet.from_json", "result_files", "core_codemods.defectdojo.results.DefectDojoResultSet.from_json"),
    "codemodder.codemods.semgrep.process_semgrep_findings": ("SemgrepResultSet", "SemgrepResultSet.from_sarif", "semgrep_sarif_files", "codemodder.semgrep.SemgrepResultSet.from_sarif"),
    "codemodder.codemods.codeql.process_codeql_findings": ("CodeQLResultSet", "CodeQLResultSet.from_sarif", "codeql_sarif_files", "codemodder.codeql.CodeQLResultSet.from_sarif"),
}
import importlib as _il
for _qn, (_ty, _reader, _param, _rqn) in _READERS.items():
    _short = _qn.split(".")[-1]
    _mod = _il.import_module(_rqn.rsplit(".", 2)[0])
    REG_sg = __import__("pyvc.api", fromlist=["REG"]).REG.spec_globals
    REG_sg[_ty] = getattr(_mod, _ty)
    # the reader is a deterministic function of the file (given the file system): used through its functional contract
    contract(_rqn, functional=True, params=({"cls": "*", "json_file": "Opaque"} if "from_json" in _rqn else {"cls": "*", "sarif_file": "Opaque", "truncate_rule_id": "bool"}),
             returns=_ty, trusted=True, note=f"{_reader}: parsed result set of one file (reader contracts: see the reader obligations of C12 where claimed)")
    spec("merge_" + _short, {"files": "list[Opaque]", "k": "int"}, _ty, recursive=True,
         body=f"typed_empty('{_ty}') if k <= 0 else merge_{_short}(files, k - 1) | {_reader}(files[k - 1])",
         doc="the first k files merged left to right with the verified ResultSet.__or__")
    contract(_qn, props=["C12"], params={_param: "list[Opaque]"}, returns=_ty,
             invariants={0: [f"{ {'process_sonar_findings': 'combined_result_set', '_process_results': 'result_set', 'process_semgrep_findings': 'results', 'process_codeql_findings': 'results'}[_short] }"
                             f" is not None and all(get2({ {'process_sonar_findings': 'combined_result_set', '_process_results': 'result_set', 'process_semgrep_findings': 'results', 'process_codeql_findings': 'results'}[_short] }, r, p)"
                             f" == get2(merge_{_short}({_param}, k), r, p) for r in ANY('str') for p in ANY('Path'))",
                             f"dom({ {'process_sonar_findings': 'combined_result_set', '_process_results': 'result_set', 'process_semgrep_findings': 'results', 'process_codeql_findings': 'results'}[_short] }) == dom(merge_{_short}({_param}, k))"]},
             ensures=[("the result is the merge of ALL the files, in order (none dropped, none overwritten)",
                       f"all(get2(result, r, p) == get2(merge_{_short}({_param}, len({_param})), r, p) for r in ANY('str') for p in ANY('Path'))"),
                      ("no file => no finding", f"implies(len({_param}) == 0, not result)")])
