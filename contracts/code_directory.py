from pyvc.api import contract, external

contract("codemodder.code_directory.file_line_patterns", props=["C13"],
         params={"file_path": "Path", "patterns": "list[str]"}, returns="list[int]", functional=True, reads=[],
         ensures=[("exactly the lines of the path:line patterns whose path part matches the file",
                   "all(iff(n in result, any(len(q.split(':')) == 2 and int(q.split(':')[1]) == n"
                   " and fnmatch.fnmatch(str(file_path), q.split(':')[0]) for q in patterns)) for n in ANY('int'))"),
                  ("no patterns => no lines", "implies(len(patterns) == 0, len(result) == 0)")])

import fnmatch as _fn
external("fnmatch.filter", params={"names": "list[str]", "pat": "str"}, returns="list[str]", pure=True,
         ensures=["all(iff(x in result, x in names and fnmatch.fnmatch(x, pat)) for x in ANY('str'))"],
         note="fnmatch.filter(names, pat) == [n for n in names if fnmatch(n, pat)] (POSIX: normcase is the identity)")

_NAMED = "any(str(n) == x for n in names)"
contract("codemodder.code_directory.filter_files", props=["C05"], bounded=True,
         params={"names": "list[Path]", "patterns": "list[str] | None", "exclude": "bool"}, returns="list[str]",
         ensures=[("only names of the given files are returned", f"all(implies(x in result, {_NAMED}) for x in ANY('str'))"),
                  ("include mode: a file is selected exactly when it matches the path part of some pattern (a ':line' suffix is ignored)",
                   f"implies(not exclude, all(iff(x in result, {_NAMED} and patterns is not None and any(fnmatch.fnmatch(x, q.split(':')[0]) for q in patterns)) for x in ANY('str')))"),
                  ("exclude mode: a pattern carrying a ':line' suffix never excludes a whole file",
                   f"implies(exclude, all(iff(x in result, {_NAMED} and patterns is not None and any(':' not in q and fnmatch.fnmatch(x, q) for q in patterns)) for x in ANY('str')))")])

_INC = "(include_paths if include_paths is not None else DEFAULT_INCLUDED_PATHS)"
_EXC = "(exclude_paths if exclude_paths is not None else DEFAULT_EXCLUDED_PATHS)"
_REL = "[str(p.relative_to(parent_path)) for p in input_paths]"
_SEL = ("any(fnmatch.fnmatch(x, q.split(':')[0]) for q in " + _INC + ") and not any(':' not in q and fnmatch.fnmatch(x, q) for q in " + _EXC + ")")
contract("codemodder.code_directory.match_files", props=["C05", "C11"], bounded=True,
         params={"parent_path": "Path", "input_paths": "list[Path]", "exclude_paths": "list[str] | None", "include_paths": "list[str] | None"},
         returns="list[Path]",
         requires=["all(p.is_relative_to(parent_path) for p in input_paths)"],
         ensures=[("exactly the files matching an include pattern and no file-level exclude pattern (defaults when None), under the parent",
                   "set(result) == {parent_path.joinpath(x) for x in " + _REL + " if " + _SEL + "}"),
                  ("sorted and duplicate-free: the order is a function of the selected set, not of the enumeration order",
                   "result == sorted(set(result)) and result == match_files(parent_path, list(reversed(input_paths)), exclude_paths, include_paths)")])

_CX = "CodemodExecutionContext"
contract("codemodder.code_directory.match_files", props=["C05"], functional=True, reads=[], trusted=True,
         params={"parent_path": "Path", "input_paths": "list[Path]", "exclude_paths": "list[str] | None", "include_paths": "list[str] | None"},
         returns="list[Path]") if False else None
