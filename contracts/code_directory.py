from pyvc.api import contract, external

contract("codemodder.code_directory.file_line_patterns", props=["C13"],
         params={"file_path": "Path", "patterns": "list[str]"}, returns="list[int]", functional=True, reads=[],
         ensures=[("exactly the lines of the path:line patterns whose path part matches the file",
                   "all(iff(n in result, any(len(q.split(':')) == 2 and int(q.split(':')[1]) == n"
                   " and fnmatch.fnmatch(str(file_path), q.split(':')[0]) for q in patterns)) for n in ANY('int'))"),
                  ("no patterns => no lines", "implies(len(patterns) == 0, len(result) == 0)")])
