"""C14 / C04 / C03: dependency manifests."""
from pyvc.api import REG, contract, external, spec, lemma
import packaging.utils as _pu
from pyvc import locate as _loc

REG.opaque_attrs.update({"name": "str"})
REG.spec_globals["canonicalize_name"] = _pu.canonicalize_name
external(_loc.qualname_of(_pu.canonicalize_name), params={"name": "str", "validate": "bool"}, returns="str", pure=True,
         note="packaging.utils.canonicalize_name: pure normalisation of a project name (PEP 503)")

contract("codemodder.project_analysis.file_parsers.package_store.PackageStore.has_requirement", props=["C14"],
         functional=True, reads=["dependencies"],
         params={"self": "PackageStore", "requirement": "Opaque"}, returns="bool",
         ensures=[("declared in any version, under any spelling/case of the project name",
                   "result == any(canonicalize_name(d.name) == canonicalize_name(requirement.name) for d in self.dependencies)")])

_DW = "DependencyWriter"
_HAS = "any(canonicalize_name(d.name) == canonicalize_name({r}.name) for d in {s})"
spec("store_after", {"store0": "set[Opaque]", "deps": "list[Dependency]", "k": "int"}, "set[Opaque]", recursive=True, reads=["requirement"],
     body="store0 if k <= 0 else (store_after(store0, deps, k - 1) if " + _HAS.format(r="deps[k - 1].requirement", s="store_after(store0, deps, k - 1)")
          + " else store_after(store0, deps, k - 1) | {deps[k - 1].requirement})",
     doc="declared requirements after considering the first k needed dependencies")
spec("added_deps", {"store0": "set[Opaque]", "deps": "list[Dependency]", "k": "int"}, "list[Dependency]", recursive=True, reads=["requirement"],
     body="typed_empty('list[Dependency]') if k <= 0 else added_deps(store0, deps, k - 1) + (typed_empty('list[Dependency]') if "
          + _HAS.format(r="deps[k - 1].requirement", s="store_after(store0, deps, k - 1)") + " else [deps[k - 1]])",
     doc="the needed dependencies that were not yet declared (by canonical name), in order, each once")
contract("codemodder.dependency_management.base_dependency_writer.DependencyWriter.add", props=["C14"],
         params={"self": _DW, "dependencies": "list[Dependency]"}, returns="list[Dependency]",
         modifies=["self.dependency_store.dependencies"],
         invariants={0: ["new == added_deps(old(self.dependency_store.dependencies), dependencies, k)",
                         "self.dependency_store.dependencies == store_after(old(self.dependency_store.dependencies), dependencies, k)"]},
         ensures=[("exactly the not-yet-declared dependencies are returned, in order, each once",
                   "result == added_deps(old(self.dependency_store.dependencies), dependencies, len(dependencies))"),
                  ("the store gains exactly those",
                   "self.dependency_store.dependencies == store_after(old(self.dependency_store.dependencies), dependencies, len(dependencies))")])

# every manifest writer: dynamic-dispatch contract of add_to_file
DYN_ADD_ENSURES = [
    ("dry-run writes nothing", "implies(dry_run, fs == old(fs))"),
    ("only this writer's manifest can change", "fs == store(old(fs), self.path, fs[self.path])"),
    ("no changeset => manifest untouched", "implies(result is None, fs == old(fs))"),
]
contract("dyn:DependencyWriter.add_to_file", trusted=True,
         params={"self": _DW, "dependencies": "list[Dependency]", "dry_run": "bool"}, returns="ChangeSet | None",
         modifies=["ghost:fs"], raises_any=True, ensures=DYN_ADD_ENSURES,
         note="dynamic-dispatch contract of DependencyWriter.add_to_file; the four writers are verified against it where claimed")

contract("codemodder.dependency_management.base_dependency_writer.DependencyWriter.write", props=["C14", "C04"],
         params={"self": _DW, "dependencies": "list[Dependency]", "dry_run": "bool"}, returns="ChangeSet | None",
         modifies=["self.dependency_store.dependencies", "ghost:fs"], raises_any=True,
         ensures=DYN_ADD_ENSURES + [
             ("every needed package already declared => the manifest is left untouched and nothing is reported",
              "implies(len(added_deps(old(self.dependency_store.dependencies), dependencies, len(dependencies))) == 0, result is None and fs == old(fs))")])

# ---- requirements.txt writer ---------------------------------------------------------------------------------------------
_RW = "RequirementsTxtWriter"
_LINES0 = "decode_utf8(old(fs)[self.path]).splitlines(keepends=True)"
spec("req_lines", {"deps": "list[Dependency]", "k": "int"}, "list[str]", recursive=True, reads=["requirement"],
     body="typed_empty('list[str]') if k <= 0 else req_lines(deps, k - 1) + [str(deps[k - 1].requirement) + '\\n']",
     doc="one line per new requirement, in order")
spec("norm_last", {"lines": "list[str]"}, "list[str]",
     body="lines if lines[len(lines) - 1].endswith('\\n') else list_set(lines, len(lines) - 1, lines[len(lines) - 1] + '\\n')",
     doc="the line list with a final newline added to the last line when it is missing (the only normalisation the property allows)")
contract("codemodder.dependency_management.requirements_txt_writer.original_lines_strategy", inline=True, props=["C15"],
         params={"original_lines": "list[str]", "i": "int"}, returns="int",
         ensures=[("line number of the i-th appended requirement", "result == len(original_lines) + i + 1")])
external("codemodder.dependency.Dependency.build_description", params={"self": "Dependency"}, returns="str", pure=True,
         ensures=["result != ''"], note="Dependency.build_description: non-empty text (f-string with fixed non-empty parts)")
contract("codemodder.dependency_management.requirements_txt_writer.RequirementsTxtWriter.add_to_file", props=["C14", "C03", "C04", "C15"],
         params={"self": _RW, "dependencies": "list[Dependency]", "dry_run": "bool"}, returns="ChangeSet | None",
         modifies=["ghost:fs"],
         requires=["len(dependencies) > 0"],
         assume_entry=["not decodable(fs[self.path]) or len(decode_utf8(fs[self.path]).splitlines(keepends=True)) > 0"],
         exsures=[("ValueError", None)],
         invariants={0: ["requirement_lines == req_lines(dependencies, k)"]},
         ensures=DYN_ADD_ENSURES + [
             ("every original line is kept in place (the last one gains its missing newline) and each requirement is appended once, in order",
              "implies(result is not None and not dry_run, fs[self.path] == utf8(''.join(norm_last(" + _LINES0 + ") + req_lines(dependencies, len(dependencies)))))"),
             ("the changeset names the manifest relative to the target", "implies(result is not None, result.path == str(self.path.relative_to(self.parent_directory)))"),
         ])
external("codemodder.codetf.PackageAction", params=None, returns="Opaque", pure=True, note="pydantic record of a package action: total for enum/str fields")


# ---- DependencyManager.write: forwards dry_run to the writer chosen by the manifest kind --------------------------------------
contract("codemodder.dependency_management.dependency_manager.DependencyManager.write", props=["C04", "C14"],
         params={"self": "DependencyManager", "dependencies": "list[Dependency]", "dry_run": "bool"}, returns="ChangeSet | None",
         modifies=["self.dependencies_store.dependencies", "ghost:fs"], raises_any=True,
         ensures=[("dry-run writes nothing", "implies(dry_run, fs == old(fs))"),
                  ("only the store's own manifest can change", "fs == store(old(fs), Path(self.dependencies_store.file), fs[Path(self.dependencies_store.file)])"),
                  ("no changeset => nothing written", "implies(result is None, fs == old(fs))")])

# ---- the other three manifest writers: verified against the dynamic-dispatch clauses (dry-run, single file, None => untouched) ---
import configparser as _cp
import tomlkit as _tk
import copy as _copy
import libcst as _cst2
REG.exceptions.update({"ParsingError": "configparser.ParsingError", "NonExistentKey": "tomlkit.exceptions.NonExistentKey"})
external("configparser.ConfigParser", params=None, returns="Opaque", note="configparser object")
external("opaque.read", params=None, returns="Opaque", exsures=[("ParsingError", None)], note="ConfigParser.read: reads the file; may raise ParsingError")
external("opaque.get", params=None, returns="Opaque", pure=True, note="mapping .get(): pure lookup")
external("codemodder.dependency_management.setupcfg_writer.SetupCfgWriter.build_new_lines", functional=True, reads=["requirement"],
         params={"self": "SetupCfgWriter", "original_lines": "list[str]", "defined_dependencies": "Opaque", "dependencies_to_add": "list[Dependency]"},
         returns="list[str] | None", note="setup.cfg line surgery (string processing): used as a function of its arguments; out of the solver's reach")
external("codemodder.diff.create_diff_and_linenums", params={"original_lines": "list[str]", "new_lines": "list[str]"}, returns="tuple[str, list[int]]", pure=True,
         ensures=["result[0] == lines_diff(original_lines, new_lines)"], note="diff text as create_diff; changed line numbers parsed from the hunks")
# build_changes is executed inline (no contract): see below
contract("codemodder.dependency_management.setupcfg_writer.SetupCfgWriter.add_to_file", props=["C04", "C14", "C03"],
         params={"self": "SetupCfgWriter", "dependencies": "list[Dependency]", "dry_run": "bool"}, returns="ChangeSet | None",
         modifies=["ghost:fs"], raises_any=True,
         ensures=DYN_ADD_ENSURES + [
             ("what is written is exactly the line list the diff was computed against",
              "implies(result is not None and not dry_run, any(fs[self.path] == utf8(''.join(u)) and result.diff == lines_diff(o, u) for o in ANY('list[str]') for u in ANY('list[str]')))")])

external("tomlkit.api.load", params=None, returns="Opaque", raises_any=True, note="tomlkit.load(file): parsed document")
external("tomlkit.api.dumps", params={"data": "Opaque", "sort_keys": "bool"}, returns="str", pure=True, note="tomlkit.dumps: rendering of a document")
external("copy.deepcopy", params={"x": "Opaque", "memo": "Opaque", "_nil": "Opaque"}, returns="Opaque", pure=True)
external("opaque.extend", params=None, raises_any=True, note="tomlkit array extend (in-memory document edit)")
external("opaque.update", params=None, raises_any=True)
external("opaque.add", params=None, raises_any=True)
external("tomlkit.api.nl", params=None, returns="Opaque")
external("codemodder.dependency_management.pyproject_writer.PyprojectWriter._update_poetry", params={"self": "PyprojectWriter", "pyproject": "Opaque", "dependencies": "list[Dependency]"},
         returns="list[Dependency]", raises_any=True, note="in-memory edit of the tomlkit document (no I/O); returns the dependencies it added")
contract("codemodder.dependency_management.pyproject_writer.PyprojectWriter.add_to_file", props=["C04", "C14", "C03"],
         params={"self": "PyprojectWriter", "dependencies": "list[Dependency]", "dry_run": "bool"}, returns="ChangeSet | None",
         modifies=["ghost:fs"], raises_any=True,
         ensures=DYN_ADD_ENSURES + [
             ("what is written is the rendering of the very document whose rendering the diff was computed against",
              "implies(result is not None and not dry_run, any(fs[self.path] == utf8(tomlkit.dumps(d)) and"
              " any(result.diff == lines_diff(o, tomlkit.dumps(d).split('\\n')) for o in ANY('list[str]')) for d in ANY('Opaque')))")])

external("libcst.metadata.wrapper.MetadataWrapper", params=None, returns="Opaque")
external("libcst.codemod._context.CodemodContext", params=None, returns="Opaque")
external("codemodder.dependency_management.setup_py_writer.SetupPyAddDependencies", params=None, returns="Opaque", raises_any=True,
         note="the libcst codemod that edits install_requires (tree edit only; no I/O)")
external("opaque.transform_module", params=None, returns="Opaque", raises_any=True, note="libcst transform of setup.py (tree edit only)")
REG.opaque_attrs.update({"line_num_changed": "int | None"})
contract("codemodder.dependency_management.setup_py_writer.SetupPyWriter.add_to_file", props=["C04", "C14", "C03"],
         params={"self": "SetupPyWriter", "dependencies": "list[Dependency]", "dry_run": "bool"}, returns="ChangeSet | None",
         modifies=["ghost:fs"], raises_any=True,
         ensures=DYN_ADD_ENSURES + [
             ("the diff is between the parsed input and the very tree whose code is written",
              "implies(result is not None and not dry_run, any(fs[self.path] == utf8(t.code) and result.diff == text_diff(decode_utf8(old(fs)[self.path]), t.code) for t in ANY('Opaque')))")])
