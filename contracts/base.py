"""Records (class models), ghost state, aliases and assumed contracts shared by all properties."""
from pyvc.api import REG, record, external, contract, spec, axiom

# ---- ghost state ---------------------------------------------------------------------------------
REG.ghosts = {
    "fs": "map[Opaque, bytes]",          # content of every path (total map)
}

# ---- libcst positions (frozen dataclasses -> value records) ---------------------------------------
record("libcst._position.CodePosition", kind="val", fields={"line": "int", "column": "int"})
record("libcst._position.CodeRange", kind="val", fields={"start": "CodePosition", "end": "CodePosition"})

# ---- codemodder.result ---------------------------------------------------------------------------
record("codemodder.result.LineInfo", kind="val", fields={"line": "int", "column": "int", "snippet": "str | None"},
       defaults={"column": "-1"})
record("codemodder.result.Location", kind="val", fields={"file": "Path", "start": "LineInfo", "end": "LineInfo"})
record("codemodder.codetf.Rule", kind="ref", fields={"id": "str", "name": "str", "url": "str | None"})
record("codemodder.codetf.Finding", kind="ref", fields={"id": "str", "rule": "Rule"})
record("codemodder.result.Result", kind="ref",
       fields={"rule_id": "str", "locations": "list[Location]", "codeflows": "Opaque", "related_locations": "Opaque",
               "finding": "Finding | None"})
record("codemodder.result.SASTResult", kind="ref", fields={"finding_id": "str"}, bases=["codemodder.result.Result"])

# ---- codetf (pydantic models; Change/ChangeSet/UnfixedFinding are built once and never mutated here -> value records)
record("codemodder.codetf.Change", kind="val",
       fields={"lineNumber": "int", "description": "str | None", "diffSide": "Opaque", "properties": "Opaque",
               "packageActions": "Opaque", "findings": "list[Finding] | None"},
       validators=["validate_lineNumber", "validate_description"])
record("codemodder.codetf.ChangeSet", kind="val",
       fields={"path": "str", "diff": "str", "changes": "list[Change]", "ai": "Opaque"})
record("codemodder.codetf.UnfixedFinding", kind="val",
       fields={"id": "str", "rule": "Rule", "path": "str", "lineNumber": "int | None", "reason": "str"})

# ---- file context / transformers --------------------------------------------------------------------
record("codemodder.file_context.FileContext", kind="ref",
       fields={"base_directory": "Path", "file_path": "Path", "line_exclude": "list[int]", "line_include": "list[int]",
               "results": "list[Result] | None", "dependencies": "set[Opaque]", "codemod_changes": "list[Change]",
               "unfixed_findings": "list[UnfixedFinding]", "changesets": "list[ChangeSet]", "failures": "list[Path]",
               "timer": "Opaque"})
record("codemodder.codemods.base_visitor.UtilsMixin", kind="ref",
       fields={"results": "list[Result] | None", "line_exclude": "list[int]", "line_include": "list[int]"})
record("codemodder.codemods.base_visitor.BaseTransformer", kind="ref", fields={}, bases=["codemodder.codemods.base_visitor.UtilsMixin"])
record("codemodder.codemods.libcst_transformer.LibcstResultTransformer", kind="ref",
       fields={"file_context": "FileContext", "change_description": "str", "context": "Opaque"},
       bases=["codemodder.codemods.base_visitor.BaseTransformer"])

# ---- pathlib (opaque values; assumed contracts) ----------------------------------------------------------
external("opaque.relative_to", params={"self": "Opaque", "other": "Opaque"}, returns="Opaque", pure=True,
         exsures=[("ValueError", None)], note="Path.relative_to: pure function of both paths; ValueError unless other is a parent")
