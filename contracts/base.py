"""Records (class models), ghost state, aliases and assumed contracts shared by all properties."""
from pyvc.api import REG, record, external, contract, spec, axiom

import fnmatch as _fnmatch
import libcst as _cst
import os as _os
import re as _re
from codemodder.codetf import Change as _Change, ChangeSet as _ChangeSet, UnfixedFinding as _UnfixedFinding
from pathlib import Path as _Path
import tomlkit as _tomlkit
REG.spec_globals = {"tomlkit": _tomlkit, "Path": _Path, "fnmatch": _fnmatch, "cst": _cst, "os": _os, "re": _re, "Change": _Change, "ChangeSet": _ChangeSet,
                    "UnfixedFinding": _UnfixedFinding, "CodeTFResult": __import__("codemodder.codetf", fromlist=["Result"]).Result,
                    "update_finding_metadata": __import__("codemodder.utils.update_finding_metadata", fromlist=["x"]).update_finding_metadata}

# ---- ghost state ---------------------------------------------------------------------------------
REG.ghosts = {
    "fs": "map[Opaque, bytes]",          # content of every path (total map)
    "report_written": "bool",            # a CodeTF report file has been written completely during this call
    "last_run_status": "int",            # value returned by the last completed codemodder.run()
    "pool_bounds": "list[int]",          # max_workers of every thread pool created (-1: unbounded / library default)
    "mapped": "list[list[Opaque]]",      # the work lists handed to executor.map, in call order
    "events": "list[str]",               # ordered trace of codemod applications ("A:<id>") and dependency processing ("D:<id>")
}

# ---- dependencies -------------------------------------------------------------------------------------
record("codemodder.dependency.Dependency", kind="ref",
       fields={"requirement": "Opaque", "description": "str", "_license": "Opaque", "oss_link": "str", "package_link": "str",
               "hashes": "list[str]", "type_stubs": "Opaque"})
record("codemodder.project_analysis.file_parsers.package_store.PackageStore", kind="ref",
       fields={"type": "Opaque", "file": "Path", "dependencies": "set[Opaque]", "py_versions": "Opaque"})
record("codemodder.dependency_management.base_dependency_writer.DependencyWriter", kind="ref",
       fields={"dependency_store": "PackageStore", "path": "Path", "parent_directory": "Path"})
for _w in ("requirements_txt_writer.RequirementsTxtWriter", "setupcfg_writer.SetupCfgWriter", "pyproject_writer.PyprojectWriter",
           "setup_py_writer.SetupPyWriter"):
    record("codemodder.dependency_management." + _w, kind="ref", fields={},
           bases=["codemodder.dependency_management.base_dependency_writer.DependencyWriter"])
record("codemodder.dependency_management.dependency_manager.DependencyManager", kind="ref",
       fields={"dependencies_store": "PackageStore", "parent_directory": "Path"})

# ---- libcst positions (frozen dataclasses -> value records) ---------------------------------------
record("libcst._position.CodePosition", kind="val", fields={"line": "int", "column": "int"})
record("libcst._position.CodeRange", kind="val", fields={"start": "CodePosition", "end": "CodePosition"})

# ---- codemodder.result ---------------------------------------------------------------------------
record("codemodder.result.LineInfo", kind="val", fields={"line": "int", "column": "int", "snippet": "str | None"},
       defaults={"column": "-1"})
record("codemodder.result.Location", kind="val", fields={"file": "Path", "start": "LineInfo", "end": "LineInfo"})
record("codemodder.codetf.Rule", kind="ref", fields={"id": "str", "name": "str", "url": "str | None"})
record("codemodder.codetf.Finding", kind="ref", fields={"id": "str", "rule": "Rule"})
record("codemodder.result.Result", kind="ref",
       fields={"rule_id": "str", "locations": "list[Location]", "codeflows": "Opaque", "related_locations": "Opaque",
               "finding": "Finding | None"})
record("codemodder.result.SASTResult", kind="ref", fields={"finding_id": "str"}, bases=["codemodder.result.Result"])

# ---- codetf (pydantic models; Change/ChangeSet/UnfixedFinding are built once and never mutated here -> value records)
record("codemodder.codetf.Change", kind="val",
       fields={"lineNumber": "int", "description": "str | None", "diffSide": "Opaque", "properties": "Opaque",
               "packageActions": "Opaque", "findings": "list[Finding] | None"},
       validators=["validate_lineNumber", "validate_description"])
record("codemodder.codetf.ChangeSet", kind="val",
       fields={"path": "str", "diff": "str", "changes": "list[Change]", "ai": "Opaque"})
record("codemodder.codetf.UnfixedFinding", kind="val",
       fields={"id": "str", "rule": "Rule", "path": "str", "lineNumber": "int | None", "reason": "str"})

# ---- file context / transformers --------------------------------------------------------------------
record("codemodder.file_context.FileContext", kind="ref",
       fields={"base_directory": "Path", "file_path": "Path", "line_exclude": "list[int]", "line_include": "list[int]",
               "results": "list[Result] | None", "dependencies": "set[Dependency]", "codemod_changes": "list[Change]",
               "unfixed_findings": "list[UnfixedFinding]", "changesets": "list[ChangeSet]", "failures": "list[Path]",
               "timer": "Opaque"})
record("codemodder.codemods.base_visitor.UtilsMixin", kind="ref",
       fields={"results": "list[Result] | None", "line_exclude": "list[int]", "line_include": "list[int]"})
record("codemodder.codemods.base_visitor.BaseTransformer", kind="ref", fields={}, bases=["codemodder.codemods.base_visitor.UtilsMixin"])
record("codemodder.codemods.libcst_transformer.LibcstResultTransformer", kind="ref",
       fields={"file_context": "FileContext", "change_description": "str", "context": "Opaque"},
       bases=["codemodder.codemods.base_visitor.BaseTransformer"])

# ---- pathlib (opaque values; assumed contracts) ----------------------------------------------------------
external("opaque.relative_to", params={"self": "Opaque", "other": "Opaque"}, returns="Opaque", pure=True,
         exsures=[("ValueError", None)], note="Path.relative_to: pure function of both paths; ValueError unless other is a parent")
record("core_codemods.sonar.results.SonarResult", kind="ref", fields={}, bases=["codemodder.result.SASTResult"])
record("core_codemods.defectdojo.results.DefectDojoResult", kind="ref", fields={}, bases=["codemodder.result.SASTResult"])

# ---- result sets: dict subclasses modelled as dict values with a nominal class tag (methods resolve through the real MRO)
REG.aliases["ResultSet"] = ("dict[str, dict[Path, list[Result]]]", "codemodder.result.ResultSet")
REG.aliases["SonarResultSet"] = ("dict[str, dict[Path, list[Result]]]", "core_codemods.sonar.results.SonarResultSet")
REG.aliases["SemgrepResultSet"] = ("dict[str, dict[Path, list[Result]]]", "codemodder.semgrep.SemgrepResultSet")
REG.aliases["InternalSemgrepResultSet"] = ("dict[str, dict[Path, list[Result]]]", "codemodder.semgrep.InternalSemgrepResultSet")
REG.aliases["CodeQLResultSet"] = ("dict[str, dict[Path, list[Result]]]", "codemodder.codeql.CodeQLResultSet")
REG.aliases["DefectDojoResultSet"] = ("dict[str, dict[Path, list[Result]]]", "core_codemods.defectdojo.results.DefectDojoResultSet")

# ---- execution context / codemods ------------------------------------------------------------------------
record("codemodder.context.CodemodExecutionContext", kind="ref",
       fields={"directory": "Path", "dry_run": "bool", "verbose": "bool", "path_include": "list[str]", "path_exclude": "list[str]",
               "max_workers": "int", "tool_result_files_map": "dict[str, list[str]]",
               "_changesets_by_codemod": "dict[str, list[ChangeSet]]", "_failures_by_codemod": "dict[str, list[Path]]",
               "_unfixed_findings_by_codemod": "dict[str, list[UnfixedFinding]]", "dependencies": "dict[str, set[Dependency]]",
               "_dependency_update_by_codemod": "dict[str, PackageStore | None]", "registry": "Opaque", "repo_manager": "Opaque",
               "providers": "Opaque", "timer": "Opaque", "semgrep_prefilter_results": "ResultSet | None",
               "openai_llm_client": "Opaque", "azure_llama_llm_client": "Opaque"})
record("codemodder.codemods.base_transformer.BaseTransformerPipeline", kind="ref", fields={"transformers": "list[Opaque]"})
record("codemodder.codemods.base_codemod.BaseCodemod", kind="ref",
       fields={"_metadata": "Opaque", "detector": "Opaque", "transformer": "BaseTransformerPipeline",
               "default_extensions": "list[str] | None", "provider": "str | None"})
record("codemodder.codemods.base_codemod.RemediationCodemod", kind="ref", fields={"requested_rules": "list[str]"},
       bases=["codemodder.codemods.base_codemod.BaseCodemod"])

external("fnmatch.fnmatch", params={"name": "str", "pat": "str"}, returns="bool", pure=True,
         note="fnmatch.fnmatch: pure total predicate fnm(name, pattern); nothing assumed beyond purity")

record("codemodder.codetf.CodeTF", kind="ref", fields={"run": "Opaque", "results": "Opaque"})
record("codemodder.cli.ArgumentParser", kind="ref", fields={})
REG.exceptions.update({"DuplicateToolError": "codemodder.sarifs.DuplicateToolError",
                       "MisconfiguredAIClient": "codemodder.llm.MisconfiguredAIClient"})
record("codemodder.codemods.regex_transformer.RegexTransformerPipeline", kind="ref",
       fields={"pattern": "str", "replacement": "str", "change_description": "str"},
       bases=["codemodder.codemods.base_transformer.BaseTransformerPipeline"])
record("codemodder.codemods.regex_transformer.SastRegexTransformerPipeline", kind="ref", fields={},
       bases=["codemodder.codemods.regex_transformer.RegexTransformerPipeline"])
record("codemodder.codemods.xml_transformer.XMLTransformerPipeline", kind="ref", fields={"xml_transformer": "Opaque"},
       bases=["codemodder.codemods.base_transformer.BaseTransformerPipeline"])

record("codemodder.codetf.Result", kind="val",
       fields={"codemod": "str", "summary": "str", "description": "str", "detectionTool": "Opaque", "references": "Opaque",
               "properties": "Opaque", "failedFiles": "list[str] | None", "changeset": "list[ChangeSet]",
               "unfixedFindings": "list[UnfixedFinding] | None"})
