"""Records (class models), ghost state, aliases and assumed contracts shared by all properties."""
from pyvc.api import REG, record, external, contract, spec, axiom

# ---- ghost state ---------------------------------------------------------------------------------
REG.ghosts = {
    "fs": "map[Opaque, bytes]",          # content of every path (total map)
}

# ---- libcst positions (frozen dataclasses -> value records) ---------------------------------------
record("libcst._position.CodePosition", kind="val", fields={"line": "int", "column": "int"})
record("libcst._position.CodeRange", kind="val", fields={"start": "CodePosition", "end": "CodePosition"})

# ---- codemodder.result ---------------------------------------------------------------------------
record("codemodder.result.LineInfo", kind="val", fields={"line": "int", "column": "int", "snippet": "str | None"},
       defaults={"column": "-1"})
record("codemodder.result.Location", kind="val", fields={"file": "Path", "start": "LineInfo", "end": "LineInfo"})
record("codemodder.codetf.Rule", kind="ref", fields={"id": "str", "name": "str", "url": "str | None"})
record("codemodder.codetf.Finding", kind="ref", fields={"id": "str", "rule": "Rule"})
record("codemodder.result.Result", kind="ref",
       fields={"rule_id": "str", "locations": "list[Location]", "codeflows": "Opaque", "related_locations": "Opaque",
               "finding": "Finding | None"})
record("codemodder.result.SASTResult", kind="ref", fields={"finding_id": "str"}, bases=["codemodder.result.Result"])
