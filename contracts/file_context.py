from pyvc.api import contract

_IN_RANGE = "any(l.start.line <= line_number and line_number <= l.end.line for l in r.locations)"
contract("codemodder.file_context.FileContext.get_findings_for_location", props=["C06", "C19"],
         params={"self": "FileContext", "line_number": "int"}, returns="list[Finding]",
         functional=True, reads=["results", "locations", "finding"],
         ensures=[("exactly the findings whose location range contains the line",
                   f"all(iff(f in result, self.results is not None and any(r.finding is not None and r.finding == f and {_IN_RANGE} for r in self.results)) for f in ANY('Finding'))"),
                  ("no results => no findings", "implies(not self.results, len(result) == 0)")])

contract("codemodder.file_context.FileContext.get_all_findings", props=["C06", "C10"],
         params={"self": "FileContext"}, returns="list[Finding]",
         functional=True, reads=["results", "finding"],
         ensures=[("exactly the findings of this file's results",
                   "all(iff(f in result, self.results is not None and any(r.finding is not None and r.finding == f for r in self.results)) for f in ANY('Finding'))")])

# ---- a one-line recorder of a file context (add_changeset's parameter is called `result`, which the contract language reserves) ---------------------------------------------------------------------------------------
contract("codemodder.file_context.FileContext.add_dependency", props=["C14"],
         params={"self": "FileContext", "dependency": "Dependency"}, modifies=["self.dependencies"],
         ensures=[("exactly this dependency is added to the file's set", "self.dependencies == old(self.dependencies) | {dependency}")])
