from pyvc.api import contract

contract("codemodder.result.same_line",
         params={"pos": "CodeRange", "location": "Location"}, returns="bool", props=["C06"],
         ensures=[("exact", "result == (pos.start.line == location.start.line and pos.end.line == location.end.line)")])

contract("codemodder.result.fuzzy_column_match",
         params={"pos": "CodeRange", "location": "Location"}, returns="bool", props=["C06"],
         ensures=[("inside-span", "implies(result, pos.start.column <= location.start.column and location.end.column <= pos.end.column + 1)"),
                  ("exact-range-accepted", "implies(pos.start.column == location.start.column and pos.end.column == location.end.column and pos.start.column <= pos.end.column, result)")])

# Result.match_location: sandwich  must => code => may   (DESIGN.md C06)
_MAY = ("any(pos.start.line == l.start.line and pos.end.line == l.end.line"
        " and -1 <= pos.start.column - l.start.column <= 0 and -1 <= pos.end.column - l.end.column <= 0"
        " for l in self.locations)")
_MUST_1BASED = ("any(pos.start.line == l.start.line and pos.end.line == l.end.line"
                " and l.start.column == pos.start.column + 1 and l.end.column == pos.end.column + 1 for l in self.locations)")
_MUST_0BASED = ("any(pos.start.line == l.start.line and pos.end.line == l.end.line"
                " and l.start.column == pos.start.column and l.end.column == pos.end.column for l in self.locations)")
contract("codemodder.result.Result.match_location",
         params={"self": "Result", "pos": "CodeRange", "node": "Opaque"}, returns="bool", props=["C06"],
         ensures=[("may: only a location on the node's lines within one column", f"implies(result, {_MAY})"),
                  ("must: exact 1-based (SARIF) range is matched", f"implies({_MUST_1BASED}, result)"),
                  ("must: exact 0-based (Sonar) range is matched", f"implies({_MUST_0BASED}, result)"),
                  ("no-locations => no match", "implies(len(self.locations) == 0, not result)")],
         covers=["result", "not result"])
