from pyvc.api import contract

contract("codemodder.result.same_line",
         params={"pos": "CodeRange", "location": "Location"}, returns="bool", props=["C06"],
         ensures=[("exact", "result == (pos.start.line == location.start.line and pos.end.line == location.end.line)")])

contract("codemodder.result.fuzzy_column_match",
         params={"pos": "CodeRange", "location": "Location"}, returns="bool", props=["C06"],
         ensures=[("inside-span", "implies(result, pos.start.column <= location.start.column and location.end.column <= pos.end.column + 1)"),
                  ("exact-range-accepted", "implies(pos.start.column == location.start.column and pos.end.column == location.end.column and pos.start.column <= pos.end.column, result)")])

# Result.match_location: sandwich  must => code => may   (DESIGN.md C06)
_MAY = ("any(pos.start.line == l.start.line and pos.end.line == l.end.line"
        " and -1 <= pos.start.column - l.start.column <= 0 and -1 <= pos.end.column - l.end.column <= 0"
        " for l in self.locations)")
_MUST_1BASED = ("any(pos.start.line == l.start.line and pos.end.line == l.end.line"
                " and l.start.column == pos.start.column + 1 and l.end.column == pos.end.column + 1 for l in self.locations)")
_MUST_0BASED = ("any(pos.start.line == l.start.line and pos.end.line == l.end.line"
                " and l.start.column == pos.start.column and l.end.column == pos.end.column for l in self.locations)")
contract("codemodder.result.Result.match_location",
         params={"self": "Result", "pos": "CodeRange", "node": "Opaque"}, returns="bool", props=["C06"],
         ensures=[("refines dyn:Result.match_location",
                   "implies(pos.start.line <= pos.end.line and result, any(pos.start.line <= l.start.line and l.start.line <= pos.end.line for l in self.locations))"),
                  ("may: only a location on the node's lines within one column", f"implies(result, {_MAY})"),
                  ("must: exact 1-based (SARIF) range is matched", f"implies({_MUST_1BASED}, result)"),
                  ("must: exact 0-based (Sonar) range is matched", f"implies({_MUST_0BASED}, result)"),
                  ("no-locations => no match", "implies(len(self.locations) == 0, not result)")],
         covers=["result", "not result"])

# ---- overrides of match_location: each carries the dynamic-dispatch clause (refinement obligation) ------------------
DYN_MATCH = "implies(pos.start.line <= pos.end.line and result, any(pos.start.line <= l.start.line and l.start.line <= pos.end.line for l in self.locations))"

contract("core_codemods.sonar.results.SonarResult.match_location",
         params={"self": "SonarResult", "pos": "CodeRange", "node": "Opaque"}, returns="bool", props=["C06"],
         ensures=[("refines dyn:Result.match_location", DYN_MATCH),
                  ("non-tuple: may", f"implies(not isinstance(node, cst.Tuple) and result, {_MAY})"),
                  ("non-tuple: must (0-based exact range)", f"implies(not isinstance(node, cst.Tuple) and {_MUST_0BASED}, result)"),
                  ("tuple: only the parenthesised range of the tuple (one column wider on each side), within one column",
                   "implies(isinstance(node, cst.Tuple) and result, any(pos.start.line == l.start.line and pos.end.line == l.end.line"
                   " and 0 <= pos.start.column - l.start.column <= 1 and -2 <= pos.end.column - l.end.column <= -1 for l in self.locations))"),
                  ("tuple: must (0-based parenthesised range)",
                   "implies(isinstance(node, cst.Tuple) and any(pos.start.line == l.start.line and pos.end.line == l.end.line"
                   " and l.start.column == pos.start.column - 1 and l.end.column == pos.end.column + 1 for l in self.locations), result)")],
         covers=["result and isinstance(node, cst.Tuple)", "result and not isinstance(node, cst.Tuple)"])

contract("core_codemods.defectdojo.results.DefectDojoResult.match_location",
         params={"self": "DefectDojoResult", "pos": "CodeRange", "node": "Opaque"}, returns="bool", props=["C06"],
         ensures=[("refines dyn:Result.match_location", DYN_MATCH),
                  ("line-only: exactly when a location starts inside the node's line range",
                   "result == any(pos.start.line <= l.start.line and l.start.line <= pos.end.line for l in self.locations)")],
         covers=["result", "not result"])
