"""C16 (framework helpers only): argument-list surgery of LibcstResultTransformer keeps every argument it was not asked to change."""
from pyvc.api import REG, contract, external, record
import libcst as _cst
from libcst import matchers as _m
from pyvc import locate as _loc

record("codemodder.codemods.libcst_transformer.NewArg", kind="val", fields={"name": "str", "value": "str", "add_if_missing": "bool"})
REG.opaque_attrs.update({"args": "list[Opaque]", "keyword": "Opaque", "equal": "Opaque"})
for _ctor in (_cst.Arg, _cst.Name, _cst.AssignEqual, _cst.SimpleWhitespace, _cst.Call, _cst.Attribute):
    external(_loc.qualname_of(_ctor), params=None, returns="Opaque", pure=True, note="libcst node constructor: a free (immutable) record")
external(_loc.qualname_of(_cst.parse_expression), params=None, returns="Opaque", pure=True, raises_any=True, note="parse an expression string")
external(_loc.qualname_of(_m.Name), params=None, returns="Opaque", pure=True)
external(_loc.qualname_of(_m.Attribute), params=None, returns="Opaque", pure=True)
external(_loc.qualname_of(_m.matches), params={"node": "Opaque", "matcher": "Opaque", "metadata_resolver": "Opaque"}, returns="bool", pure=True,
         note="matchers.matches(arg.keyword, m.Name(n)): the argument's keyword is the name n (false for positional arguments)")
REG.spec_globals.update({"matchers": _m, "cst": _cst})

_KW = "matchers.matches({a}.keyword, matchers.Name({n}))"
contract("codemodder.codemods.libcst_transformer._match_with_existing_arg", props=["C16"],
         params={"arg": "Opaque", "args_info": "list[NewArg]"}, returns="tuple[str | None, str | None, int | None]",
         invariants={0: ["not any(" + _KW.format(a="arg", n="args_info[j].name") + " for j in range(k))"]},
         ensures=[("no hit => no entry of args_info names this argument's keyword",
                   "implies(result[0] is None, not any(" + _KW.format(a="arg", n="x.name") + " for x in args_info))"),
                  ("a hit is an entry of args_info that names this argument's keyword",
                   "implies(result[0] is not None, result[2] is not None and 0 <= val_of(result[2]) and val_of(result[2]) < len(args_info)"
                   " and args_info[val_of(result[2])].name == val_of(result[0]) and " + _KW.format(a="arg", n="val_of(result[0])") + ")")])

contract("codemodder.codemods.libcst_transformer.LibcstResultTransformer.replace_args", props=["C16"],
         params={"self": "LibcstResultTransformer", "original_node": "Opaque", "args_info": "list[NewArg]"}, returns="list[Opaque]",
         modifies=["args_info"], exsures=[("AssertionError", None)], raises_any=True,
         invariants={0: ["len(new_args) == k",
                         "all(any(x == y for y in old(args_info)) for x in args_info)",
                         "all(implies(not any(" + _KW.format(a="original_node.args[i]", n="y.name") + " for y in old(args_info)), new_args[i] == original_node.args[i]) for i in range(k))"],
                     1: ["len(new_args) >= len(original_node.args)",
                         "all(implies(not any(" + _KW.format(a="original_node.args[i]", n="y.name") + " for y in old(args_info)), new_args[i] == original_node.args[i])"
                         " for i in range(len(original_node.args)))"]},
         ensures=[("no argument is dropped: at least as many arguments as before", "len(result) >= len(original_node.args)"),
                  ("every argument whose keyword is not named in args_info is kept, identical and in place",
                   "all(implies(not any(" + _KW.format(a="original_node.args[i]", n="y.name") + " for y in old(args_info)), result[i] == original_node.args[i])"
                   " for i in range(len(original_node.args)))")])

# ---- https-connection: the tenth POSITIONAL argument is the only one re-labelled --------------------------------------------------
contract("core_codemods.https_connection.HTTPSConnectionModifier.count_positional_args", props=["C16"],
         params={"self": "Opaque", "arglist": "list[Opaque]"}, returns="int",
         invariants={0: ["all(not arglist[j].keyword for j in range(k))"]},
         ensures=[("the result is the length of the LEADING run of keyword-less arguments (star-args after a keyword do not count)",
                   "0 <= result and result <= len(arglist) and all(not arglist[j].keyword for j in range(result))"
                   " and (result == len(arglist) or bool(arglist[result].keyword))")])

# ---- the remaining argument helpers: add_arg_to_call, update_call_target, update_arg_target -------------------------------------------
external("opaque.with_changes", params={"self": "Opaque", "args": "list[Opaque]"}, returns="Opaque", pure=True,
         ensures=["result.args == args"],
         note="libcst node.with_changes(args=a): a copy of the node whose args are exactly a (every other field unchanged)")
external("codemodder.codemods.utils.get_call_name", params={"call": "Opaque"}, returns="str", pure=True, note="name of the called function (string)")
contract("codemodder.codemods.libcst_transformer.LibcstResultTransformer.add_arg_to_call", props=["C16"],
         params={"self": "LibcstResultTransformer", "node": "Opaque", "name": "str", "value": "Opaque"}, returns="Opaque", raises_any=True,
         ensures=[("exactly one argument is added, at the end; every existing argument is kept, identical and in place",
                   "len(result.args) == len(node.args) + 1 and all(result.args[i] == node.args[i] for i in range(len(node.args)))")])
contract("codemodder.codemods.libcst_transformer.LibcstResultTransformer.update_arg_target", props=["C16"],
         params={"self": "LibcstResultTransformer", "updated_node": "Opaque", "new_args": "list[Opaque]"}, returns="Opaque", raises_any=True,
         ensures=[("the call gets exactly the given arguments, in the given order", "len(result.args) == len(new_args)"),
                  ("an element that already is an argument node is used as it is",
                   "all(implies(isinstance(new_args[i], cst.Arg), result.args[i] == new_args[i]) for i in range(len(new_args)))")])
external(_loc.qualname_of(_cst.Call), params={"func": "Opaque", "args": "list[Opaque]"}, returns="Opaque", pure=True,
         ensures=["result.args == args"], note="libcst Call(func=f, args=a): a node whose args are exactly a")
contract("codemodder.codemods.libcst_transformer.LibcstResultTransformer.update_call_target", props=["C16"],
         params={"self": "LibcstResultTransformer", "original_node": "Opaque", "new_target": "str", "new_func": "str | None",
                 "replacement_args": "list[Opaque] | None"}, returns="Opaque", raises_any=True,
         ensures=[("only the callee changes: without replacement arguments the new call has the original arguments, identical and in order",
                   "implies(replacement_args is None or len(replacement_args) == 0, result.args == original_node.args)"),
                  ("with replacement arguments the new call has exactly those", "implies(replacement_args is not None and len(replacement_args) > 0, result.args == replacement_args)")])

# ---- ImportedCallModifier.leave_Call: the shared driver of a dozen hardening codemods ----------------------------------------------------
record("codemodder.codemods.imported_call_modifier.ImportedCallModifier", kind="ref",
       fields={"file_context": "FileContext", "change_description": "str", "changes_in_file": "list[Change]", "matching_functions": "Opaque"},
       bases=["codemodder.codemods.base_visitor.UtilsMixin"])
_ICM = "ImportedCallModifier"
external("codemodder.codemods.utils_mixin.NameResolutionMixin.find_base_name", params={"self": "Opaque", "node": "Opaque"}, returns="str | None", pure=True,
         note="resolved dotted name of the callee, or None")
external("codemodder.codemods.utils_mixin.NameResolutionMixin.is_direct_call_from_imported_module", params={"self": "Opaque", "call": "Opaque"},
         returns="bool", pure=True, note="the call goes through an imported module/name")
for _cb in ("update_attribute", "update_simple_name"):
    contract("dyn:ImportedCallModifier." + _cb, trusted=True,
             params={"self": _ICM, "true_name": "str", "original_node": "Opaque", "updated_node": "Opaque", "new_args": "Opaque"}, returns="Opaque",
             raises_any=True, note="per-codemod callback building the rewritten call (out of reach: each codemod's own edit)")
contract("dyn:ImportedCallModifier.updated_args", trusted=True, params={"self": _ICM, "original_args": "Opaque"}, returns="Opaque", raises_any=True,
         note="per-codemod hook (default: the arguments unchanged)")
_SEL = "(self.node_is_selected(original_node) and self.filter_by_path_includes_or_excludes(self.node_position(original_node)))"
contract("codemodder.codemods.imported_call_modifier.ImportedCallModifier.leave_Call", props=["C16", "C13", "C06"],
         params={"self": _ICM, "original_node": "Opaque", "updated_node": "Opaque"}, returns="Opaque",
         modifies=["self.changes_in_file"], raises_any=True,
         ensures=[("a call the selection filters reject is returned untouched and no change is recorded",
                   "implies(not " + _SEL + ", result == updated_node and self.changes_in_file == old(self.changes_in_file))"),
                  ("a call that is not a direct call of one of the codemod's functions is returned untouched and no change is recorded",
                   "implies(not self.is_direct_call_from_imported_module(original_node) or self.find_base_name(original_node.func) is None,"
                   " result == updated_node and self.changes_in_file == old(self.changes_in_file))"),
                  ("at most one change per call; it names the call's first line and carries the findings of that line",
                   "self.changes_in_file == old(self.changes_in_file) or (len(self.changes_in_file) == len(old(self.changes_in_file)) + 1"
                   " and self.changes_in_file[len(self.changes_in_file) - 1].lineNumber == self.node_position(original_node).start.line"
                   " and self.changes_in_file[len(self.changes_in_file) - 1].description == self.change_description"
                   " and all(self.changes_in_file[i] == old(self.changes_in_file)[i] for i in range(len(old(self.changes_in_file)))))")])
