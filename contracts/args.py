"""C16 (framework helpers only): argument-list surgery of LibcstResultTransformer keeps every argument it was not asked to change."""
from pyvc.api import REG, contract, external, record
import libcst as _cst
from libcst import matchers as _m
from pyvc import locate as _loc

record("codemodder.codemods.libcst_transformer.NewArg", kind="val", fields={"name": "str", "value": "str", "add_if_missing": "bool"})
REG.opaque_attrs.update({"args": "list[Opaque]", "keyword": "Opaque", "equal": "Opaque"})
for _ctor in (_cst.Arg, _cst.Name, _cst.AssignEqual, _cst.SimpleWhitespace, _cst.Call, _cst.Attribute):
    external(_loc.qualname_of(_ctor), params=None, returns="Opaque", pure=True, note="libcst node constructor: a free (immutable) record")
external(_loc.qualname_of(_cst.parse_expression), params=None, returns="Opaque", pure=True, raises_any=True, note="parse an expression string")
external(_loc.qualname_of(_m.Name), params=None, returns="Opaque", pure=True)
external(_loc.qualname_of(_m.matches), params={"node": "Opaque", "matcher": "Opaque", "metadata_resolver": "Opaque"}, returns="bool", pure=True,
         note="matchers.matches(arg.keyword, m.Name(n)): the argument's keyword is the name n (false for positional arguments)")
REG.spec_globals.update({"matchers": _m, "cst": _cst})

_KW = "matchers.matches({a}.keyword, matchers.Name({n}))"
contract("codemodder.codemods.libcst_transformer._match_with_existing_arg", props=["C16"],
         params={"arg": "Opaque", "args_info": "list[NewArg]"}, returns="tuple[str | None, str | None, int | None]",
         invariants={0: ["not any(" + _KW.format(a="arg", n="args_info[j].name") + " for j in range(k))"]},
         ensures=[("no hit => no entry of args_info names this argument's keyword",
                   "implies(result[0] is None, not any(" + _KW.format(a="arg", n="x.name") + " for x in args_info))"),
                  ("a hit is an entry of args_info that names this argument's keyword",
                   "implies(result[0] is not None, result[2] is not None and 0 <= val_of(result[2]) and val_of(result[2]) < len(args_info)"
                   " and args_info[val_of(result[2])].name == val_of(result[0]) and " + _KW.format(a="arg", n="val_of(result[0])") + ")")])

contract("codemodder.codemods.libcst_transformer.LibcstResultTransformer.replace_args", props=["C16"],
         params={"self": "LibcstResultTransformer", "original_node": "Opaque", "args_info": "list[NewArg]"}, returns="list[Opaque]",
         modifies=["args_info"], exsures=[("AssertionError", None)], raises_any=True,
         invariants={0: ["len(new_args) == k",
                         "all(any(x == y for y in old(args_info)) for x in args_info)",
                         "all(implies(not any(" + _KW.format(a="original_node.args[i]", n="y.name") + " for y in old(args_info)), new_args[i] == original_node.args[i]) for i in range(k))"],
                     1: ["len(new_args) >= len(original_node.args)",
                         "all(implies(not any(" + _KW.format(a="original_node.args[i]", n="y.name") + " for y in old(args_info)), new_args[i] == original_node.args[i])"
                         " for i in range(len(original_node.args)))"]},
         ensures=[("no argument is dropped: at least as many arguments as before", "len(result) >= len(original_node.args)"),
                  ("every argument whose keyword is not named in args_info is kept, identical and in place",
                   "all(implies(not any(" + _KW.format(a="original_node.args[i]", n="y.name") + " for y in old(args_info)), result[i] == original_node.args[i])"
                   " for i in range(len(original_node.args)))")])

# ---- https-connection: the tenth POSITIONAL argument is the only one re-labelled --------------------------------------------------
contract("core_codemods.https_connection.HTTPSConnectionModifier.count_positional_args", props=["C16"],
         params={"self": "Opaque", "arglist": "list[Opaque]"}, returns="int",
         invariants={0: ["all(not arglist[j].keyword for j in range(k))"]},
         ensures=[("the result is the length of the LEADING run of keyword-less arguments (star-args after a keyword do not count)",
                   "0 <= result and result <= len(arglist) and all(not arglist[j].keyword for j in range(result))"
                   " and (result == len(arglist) or bool(arglist[result].keyword))")])
