"""C06/C13 kernel: result filter and line filter of every libcst transformer (codemodder/codemods/base_visitor.py,
libcst_transformer.py) and the findings attached to change entries (file_context.py)."""
from pyvc.api import contract, external

# libcst PositionProvider: trusted.  node_position is a pure function of (transformer, node) returning the node's range.
external("codemodder.codemods.base_visitor.UtilsMixin.node_position",
         params={"self": "UtilsMixin", "node": "Opaque"}, returns="CodeRange", pure=True,
         ensures=["1 <= result.start.line and result.start.line <= result.end.line"],
         note="libcst PositionProvider returns the node's true source range (1-based lines, start <= end)")

# dynamic dispatch contract of Result.match_location (weakest clause common to every override; each override carries it)
DYN_MATCH = ("implies(result, any(pos.start.line <= l.start.line and l.start.line <= pos.end.line for l in self.locations))")
contract("dyn:Result.match_location", params={"self": "Result", "pos": "CodeRange", "node": "Opaque"}, returns="bool",
         requires=["pos.start.line <= pos.end.line"], ensures=[("dyn", DYN_MATCH)], trusted=True,
         note="dynamic-dispatch contract; every override is verified against it (refinement obligations)")

contract("codemodder.codemods.base_visitor.match_line", inline=True, props=["C13"],
         params={"pos": "CodeRange", "line": "int"}, returns="bool",
         ensures=[("exact", "result == (pos.start.line == line and pos.end.line == line)")])

contract("codemodder.codemods.base_visitor.UtilsMixin.results_for_node", props=["C06"],
         params={"self": "UtilsMixin", "node": "Opaque"}, returns="list[Result]",
         ensures=[("exactly the results matching the node's position",
                   "all(iff(r in result, self.results is not None and r in self.results and r.match_location(self.node_position(node), node)) for r in ANY('Result'))"),
                  ("no results => empty", "implies(not self.results, len(result) == 0)")])

contract("codemodder.codemods.base_visitor.UtilsMixin.filter_by_result", props=["C06"],
         params={"self": "UtilsMixin", "node": "Opaque"}, returns="bool", functional=True, reads=["results", "locations"],
         ensures=[("detector-less: vacuous", "implies(self.results is None, result)"),
                  ("with results: some result matches the node",
                   "implies(self.results is not None, iff(result, any(r.match_location(self.node_position(node), node) for r in self.results)))"),
                  ("empty result list selects nothing", "implies(self.results is not None and len(self.results) == 0, not result)")],
         covers=["result", "not result"])

_ONE = "pos_to_match.start.line == pos_to_match.end.line"
_L = "pos_to_match.start.line"
contract("codemodder.codemods.base_visitor.UtilsMixin.filter_by_path_includes_or_excludes", props=["C13"],
         params={"self": "UtilsMixin", "pos_to_match": "CodeRange"}, returns="bool", functional=True,
         reads=["line_exclude", "line_include"],
         ensures=[("excluded single-line construct is rejected", f"implies({_ONE} and {_L} in self.line_exclude, not result)"),
                  ("includes given, line not included => rejected",
                   f"implies(len(self.line_exclude) == 0 and len(self.line_include) > 0 and not ({_ONE} and {_L} in self.line_include), not result)"),
                  ("includes given, line included => accepted",
                   f"implies(len(self.line_exclude) == 0 and len(self.line_include) > 0 and {_ONE} and {_L} in self.line_include, result)"),
                  ("no line patterns => accepted", "implies(len(self.line_exclude) == 0 and len(self.line_include) == 0, result)"),
                  ("only excludes, line not excluded => accepted",
                   f"implies(len(self.line_exclude) > 0 and len(self.line_include) == 0 and not ({_ONE} and {_L} in self.line_exclude), result)")],
         covers=["result", "not result"])

contract("codemodder.codemods.base_visitor.UtilsMixin.node_is_selected", props=["C06", "C13"],
         params={"self": "UtilsMixin", "node": "Opaque"}, returns="bool", functional=True,
         reads=["results", "locations", "line_exclude", "line_include"],
         ensures=[("conjunction of both filters",
                   "result == (self.filter_by_result(node) and self.filter_by_path_includes_or_excludes(self.node_position(node)))")])

contract("codemodder.codemods.base_visitor.UtilsMixin.lineno_for_node", props=["C13"],
         params={"self": "UtilsMixin", "node": "Opaque"}, returns="int",
         ensures=[("start line of the node", "result == self.node_position(node).start.line")])
