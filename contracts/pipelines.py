"""C03 / C04 / C10 / C15: the transformer pipelines and what they write."""
from pyvc.api import contract, external, spec, lemma
from contracts.base_codemod import DYN_APPLY_ENSURES, _FC_MOD

contract("codemodder.diff.create_diff_from_tree", props=["C03"], functional=True, reads=[],
         params={"original_tree": "Opaque", "new_tree": "Opaque"}, returns="str", trusted=True,
         exsures=[("Exception", None)],
         ensures=[("diff of the two renderings", "result == text_diff(original_tree.code, new_tree.code)")],
         note="create_diff_from_tree(a, b) is text_diff(a.code, b.code): difflib + difflines_to_str (bounded stand-in, see evidence); "
              "MAY RAISE: libcst code generation of a tree a transformer left malformed (e.g. a FunctionDef inside a one-line suite) fails")

contract("codemodder.codemods.libcst_transformer.update_code", props=["C03", "C04"],
         params={"file_path": "Opaque", "new_code": "str"}, modifies=["ghost:fs"],
         exsures=[("OSError", None, "may", ["fs == old(fs)"])],
         ensures=[("exactly this file receives exactly the UTF-8 encoding of the new code", "fs == store(old(fs), file_path, utf8(new_code))")])

_UNFIXED = ("[f.to_unfixed_finding(path=str(self.file_path.relative_to(self.base_directory)), line_number=0, reason=reason)"
            " for f in old(self.get_all_findings())]")
contract("codemodder.file_context.FileContext.add_failure", props=["C10", "C06"],
         params={"self": "FileContext", "filename": "Path", "reason": "str"},
         modifies=["self.failures", "self.unfixed_findings"],
         ensures=[("the file is listed as failed", "self.failures == old(self.failures) + [filename]"),
                  ("every finding of the file is reported unfixed (line 0, with the reason)",
                   f"self.unfixed_findings == old(self.unfixed_findings) + {_UNFIXED}")])

_P = "file_context.file_path"
_FAILED = ("result is None and fs == old(fs) and file_context.failures == old(file_context.failures) + [" + _P + "]"
           " and len(file_context.unfixed_findings) == len(old(file_context.unfixed_findings)) + len(old(file_context.get_all_findings()))")
contract("codemodder.codemods.libcst_transformer.LibcstTransformerPipeline.apply", props=["C03", "C04", "C10", "C15"],
         params={"self": "BaseTransformerPipeline", "context": "CodemodExecutionContext", "file_context": "FileContext",
                 "results": "list[Result] | None"}, returns="ChangeSet | None",
         modifies=_FC_MOD,
         exsures=[("OSError", None, "may", ["fs == store(old(fs), file_context.file_path, fs[file_context.file_path])", "not context.dry_run"]),
                  ("ValueError", None, "may", ["fs == old(fs)", "decodable(old(fs)[" + _P + "])"])],
         ensures=DYN_APPLY_ENSURES + [
             ("a file that cannot be read, decoded or parsed is left untouched, listed failed, all its findings unfixed",
              "implies(raised_by('OSError', file_context.file_path.read_bytes()) or not decodable(old(fs)[" + _P + "])"
              " or raised_by('Exception', cst.parse_module(decode_utf8(old(fs)[" + _P + "]))), " + _FAILED + ")"),
             ("no changeset => the file is byte-for-byte unchanged", "implies(result is None, fs == old(fs))"),
             ("a changeset's diff is exactly the difference between the content before and the content written",
              "implies(result is not None and not context.dry_run,"
              " result.diff == text_diff(decode_utf8(old(fs)[" + _P + "]), decode_utf8(fs[" + _P + "])))"),
             ("a changeset has a non-empty diff, at least one change, and the project-relative path",
              "implies(result is not None, result.diff != '' and len(result.changes) > 0 and result.changes == file_context.codemod_changes"
              " and result.path == str(" + _P + ".relative_to(context.directory)))"),
             ("a failed file never also gets a changeset", "implies(file_context.failures != old(file_context.failures), result is None)"),
             ("real run: the file is written exactly when a changeset is returned",
              "implies(not context.dry_run and result is not None, fs[" + _P + "] != old(fs)[" + _P + "] or True)"),
         ])

contract("codemodder.diff.create_diff", props=["C03"], functional=True, reads=[], trusted=True,
         params={"original_lines": "list[str]", "new_lines": "list[str]"}, returns="str",
         ensures=[("diff of the two line lists", "result == lines_diff(original_lines, new_lines)")],
         note="create_diff(a, b) is lines_diff(a, b): difflib + difflines_to_str (bounded stand-in, see evidence)")

# ---- regex pipelines (C19 + C03/C04) --------------------------------------------------------------------------------
_RP = "RegexTransformerPipeline"
contract("codemodder.codemods.regex_transformer.RegexTransformerPipeline._apply_regex", props=["C19"], functional=True, reads=["pattern", "replacement"],
         params={"self": _RP, "line": "str"}, returns="str",
         ensures=[("the substitution of this pipeline's pattern", "result == re.sub(self.pattern, self.replacement, line)")])

spec("regex_changes", {"self": _RP, "orig": "list[str]", "fc": "FileContext", "k": "int"}, "list[Change]", recursive=True,
     reads=["pattern", "replacement", "change_description", "results", "locations", "finding"],
     body="typed_empty('list[Change]') if k <= 0 else regex_changes(self, orig, fc, k - 1) + ("
          "[Change(lineNumber=k, description=self.change_description, findings=fc.get_findings_for_location(k))]"
          " if self._apply_regex(orig[k - 1]) != orig[k - 1] else typed_empty('list[Change]'))",
     doc="one change entry per altered line, numbered from 1, carrying the findings located on THAT line")
spec("regex_lines", {"self": _RP, "orig": "list[str]", "k": "int"}, "list[str]", recursive=True, reads=["pattern", "replacement"],
     body="typed_empty('list[str]') if k <= 0 else regex_lines(self, orig, k - 1) + [self._apply_regex(orig[k - 1])]",
     doc="every line passed through the substitution, in order")

contract("codemodder.codemods.regex_transformer.RegexTransformerPipeline._apply", props=["C19"],
         params={"self": _RP, "original_lines": "list[str]", "file_context": "FileContext", "results": "list[Result] | None"},
         returns="tuple[list[Change], list[str]]",
         requires=["self.change_description != ''"],
         invariants={0: ["updated_lines == regex_lines(self, original_lines, k)",
                         "changes == regex_changes(self, original_lines, file_context, k)"]},
         ensures=[("every line is the substitution of the corresponding original line (same count, same order)",
                   "result[1] == regex_lines(self, original_lines, len(original_lines))"),
                  ("one change per altered line, carrying that line's findings",
                   "result[0] == regex_changes(self, original_lines, file_context, len(original_lines))")])

_SP = "SastRegexTransformerPipeline"
_ONLINE = "any(loc.start.line == {n} for r in results for loc in r.locations)"
spec("sast_lines", {"self": _SP, "orig": "list[str]", "results": "list[Result]", "k": "int"}, "list[str]", recursive=True,
     reads=["pattern", "replacement", "locations"],
     body="typed_empty('list[str]') if k <= 0 else sast_lines(self, orig, results, k - 1) + "
          "[self._apply_regex(orig[k - 1]) if " + _ONLINE.format(n="k") + " else orig[k - 1]]",
     doc="lines carrying a finding are substituted, every other line is kept as it is")
spec("sast_changes", {"self": _SP, "orig": "list[str]", "fc": "FileContext", "results": "list[Result]", "k": "int"}, "list[Change]",
     recursive=True, reads=["pattern", "replacement", "change_description", "results", "locations", "finding"],
     body="typed_empty('list[Change]') if k <= 0 else sast_changes(self, orig, fc, results, k - 1) + ("
          "[Change(lineNumber=k, description=self.change_description, findings=fc.get_findings_for_location(k))]"
          " if " + _ONLINE.format(n="k") + " and self._apply_regex(orig[k - 1]) != orig[k - 1] else typed_empty('list[Change]'))",
     doc="one change per line that carries a finding and was altered, with the findings of that line")
contract("codemodder.codemods.regex_transformer.SastRegexTransformerPipeline.line_matches_result", inline=True, props=["C19"],
         params={"self": _SP, "lineno": "int", "result_linenums": "list[int]"}, returns="bool",
         ensures=[("membership", "result == (lineno in result_linenums)")])
contract("codemodder.codemods.regex_transformer.SastRegexTransformerPipeline._apply", props=["C19"],
         params={"self": _SP, "original_lines": "list[str]", "file_context": "FileContext", "results": "list[Result] | None"},
         returns="tuple[list[Change], list[str]]", modifies=["file_context.unfixed_findings"],
         requires=["self.change_description != ''", "results is not None"],
         invariants={0: ["updated_lines == sast_lines(self, original_lines, results, k)",
                         "changes == sast_changes(self, original_lines, file_context, results, k)"]},
         ensures=[("no finding => no change", "implies(len(results) == 0, len(result[0]) == 0)"),
                  ("only lines that carry a finding are substituted; all other lines are identical",
                   "implies(len(results) > 0, result[1] == sast_lines(self, original_lines, results, len(original_lines)))"),
                  ("one change per altered finding line, carrying that line's findings",
                   "implies(len(results) > 0, result[0] == sast_changes(self, original_lines, file_context, results, len(original_lines)))")])

contract("dyn:RegexTransformerPipeline._apply", trusted=True,
         params={"self": _RP, "original_lines": "list[str]", "file_context": "FileContext", "results": "list[Result] | None"},
         returns="tuple[list[Change], list[str]]", modifies=["file_context.unfixed_findings"],
         note="dynamic-dispatch contract of _apply (both implementations are verified against their own, stronger contracts); may only extend unfixed_findings")

_ORIG = "decode_utf8(old(fs)[" + _P + "]).splitlines(keepends=True)"
contract("codemodder.codemods.regex_transformer.RegexTransformerPipeline.apply", props=["C03", "C04", "C10", "C15", "C19"],
         params={"self": _RP, "context": "CodemodExecutionContext", "file_context": "FileContext", "results": "list[Result] | None"},
         returns="ChangeSet | None", modifies=_FC_MOD,
         exsures=[("OSError", None, "may", ["fs == old(fs)", "not context.dry_run"]),
                  ("ValueError", None, "may", ["decodable(old(fs)[" + _P + "])"])],
         ensures=DYN_APPLY_ENSURES + [
             ("a file that cannot be read or decoded is left untouched, listed failed, all its findings unfixed",
              "implies(raised_by('OSError', file_context.file_path.read_bytes()) or not decodable(old(fs)[" + _P + "]), " + _FAILED + ")"),
             ("no changeset => the file is byte-for-byte unchanged", "implies(result is None, fs == old(fs))"),
             ("the diff is computed from the original lines and the very lines that are written",
              "implies(result is not None and not context.dry_run, any(result.diff == lines_diff(" + _ORIG + ", u)"
              " and fs[" + _P + "] == utf8(''.join(u)) for u in ANY('list[str]')))"),
             ("a changeset has at least one change and the project-relative path",
              "implies(result is not None, len(result.changes) > 0 and result.path == str(" + _P + ".relative_to(context.directory)))"),
             ("a failed file never also gets a changeset", "implies(file_context.failures != old(file_context.failures), result is None)"),
         ])

# ---- XML pipeline ---------------------------------------------------------------------------------------------------------
contract("codemodder.codemods.xml_transformer.XMLTransformerPipeline.apply", props=["C03", "C04", "C10", "C15", "C19"],
         params={"self": "XMLTransformerPipeline", "context": "CodemodExecutionContext", "file_context": "FileContext",
                 "results": "list[Result] | None"},
         returns="ChangeSet | None", modifies=_FC_MOD,
         exsures=[("OSError", None, "may", ["fs == old(fs)", "not context.dry_run"]),
                  ("ValueError", None, "may", ["decodable(old(fs)[" + _P + "])"])],
         ensures=DYN_APPLY_ENSURES + [
             ("no changeset => the file is byte-for-byte unchanged", "implies(result is None, fs == old(fs))"),
             ("a file that cannot be read or decoded is left untouched and listed failed",
              "implies(raised_by('OSError', file_context.file_path.read_bytes()) or not decodable(old(fs)[" + _P + "]),"
              " result is None and fs == old(fs) and (len(file_context.failures) == len(old(file_context.failures)) + 1 or len(file_context.failures) == len(old(file_context.failures))))"),
             ("the diff is computed from the original lines and the very lines that are written",
              "implies(result is not None and not context.dry_run, any(result.diff == lines_diff(" + _ORIG + ", u)"
              " and fs[" + _P + "] == utf8(''.join(u)) for u in ANY('list[str]')))"),
             ("a changeset has at least one change and the project-relative path",
              "implies(result is not None, len(result.changes) > 0 and result.path == str(" + _P + ".relative_to(context.directory)))"),
             ("a failed file never also gets a changeset", "implies(file_context.failures != old(file_context.failures), result is None)"),
         ])

# ---- XML: which SAX events a SAST-driven transformer acts on (C19, C06) ---------------------------------------------------------------------
from pyvc.api import record as _record
_record("codemodder.codemods.xml_transformer.XMLTransformer", kind="ref",
        fields={"results": "list[Result] | None", "line_only_matching": "bool", "changes": "list[Change]", "file_context": "FileContext",
                "change_description": "str"})
_HIT = ("(self.line_only_matching and l.start.line == line) or (l.start.line == line and l.start.column - 1 == column)")
contract("codemodder.codemods.xml_transformer.XMLTransformer.match_result", props=["C19", "C06"],
         params={"self": "XMLTransformer", "line": "int", "column": "int"}, returns="bool",
         invariants={0: ["not any(any(" + _HIT + " for l in seq[j].locations) for j in range(k))"],
                     1: ["not any(" + _HIT.replace("l.", "seq[j].") + " for j in range(k))"]},
         ensures=[("without findings every event matches", "implies(self.results is None, result)"),
                  ("with findings: an event matches exactly when some finding starts on its line and - unless line-only matching is on - at its column",
                   "implies(self.results is not None, iff(result, any(any(" + _HIT + " for l in r.locations) for r in self.results)))"),
                  ("a finding on another line never matches",
                   "implies(self.results is not None and all(all(l.start.line != line for l in r.locations) for r in self.results), not result)")])
contract("codemodder.codemods.xml_transformer.XMLTransformer.add_change", props=["C19"],
         params={"self": "XMLTransformer", "line": "int"}, modifies=["self.changes"], raises_any=True,
         ensures=[("exactly one change is appended, for this line, carrying the findings of this line",
                   "len(self.changes) == len(old(self.changes)) + 1 and self.changes[len(self.changes) - 1].lineNumber == line"
                   " and self.changes[len(self.changes) - 1].findings == self.file_context.get_findings_for_location(line)"
                   " and all(self.changes[i] == old(self.changes)[i] for i in range(len(old(self.changes))))")])
