"""BaseCodemod._process_file and the result-set lookup it relies on (C06, C13, C10, C11)."""
from pyvc.api import contract, external, spec

_T_INNER = "typed_empty('dict[Path, list[Result]]')"
_T_LIST = "typed_empty('list[Result]')"

contract("codemodder.result.ResultSet.results_for_rule_and_file", props=["C06"],
         params={"self": "ResultSet", "context": "CodemodExecutionContext", "rule_id": "str", "file": "Path"},
         returns="list[Result]",
         exsures=[("ValueError", None)],
         ensures=[("exactly the findings stored for (rule, file relative to the target)",
                   f"result == lookup(lookup(self, rule_id, {_T_INNER}), file.relative_to(context.directory), {_T_LIST})"),
                  ("refines dyn", f"result == lookup(lookup(self, rule_id, {_T_INNER}), file.relative_to(context.directory), {_T_LIST})"
                                  f" or result == lookup(lookup(self, rule_id, {_T_INNER}), file, {_T_LIST})")])

contract("codemodder.semgrep.InternalSemgrepResultSet.results_for_rule_and_file", props=["C06"],
         params={"self": "InternalSemgrepResultSet", "context": "CodemodExecutionContext", "rule_id": "str", "file": "Path"},
         returns="list[Result]",
         ensures=[("exactly the findings stored for (rule, file as given)",
                   f"result == lookup(lookup(self, rule_id, {_T_INNER}), file, {_T_LIST})")])

# dynamic dispatch: either key spelling, nothing else (other rules / other files never leak in)
contract("dyn:ResultSet.results_for_rule_and_file", trusted=True, functional=True,
         params={"self": "ResultSet", "context": "CodemodExecutionContext", "rule_id": "str", "file": "Path"},
         returns="list[Result]",
         ensures=[("dyn", f"result == lookup(lookup(self, rule_id, {_T_INNER}), file.relative_to(context.directory), {_T_LIST})"
                          f" or result == lookup(lookup(self, rule_id, {_T_INNER}), file, {_T_LIST})")],
         note="dynamic-dispatch contract of results_for_rule_and_file; both implementations are verified against it")

# every transformer pipeline (libcst / regex / XML): dynamic-dispatch contract used by _process_file.  Each pipeline's
# own `apply` is verified against these clauses (C03/C04/C10 contracts).
DYN_APPLY_ENSURES = [
    ("only the file being processed can change on disk",
     "fs == store(old(fs), file_context.file_path, fs[file_context.file_path])"),
    ("dry-run or no changeset => nothing is written", "implies(context.dry_run or result is None, fs == old(fs))"),
    ("a file that cannot be read or decoded is listed as failed (by every pipeline, for every codemod that processes it)",
     "implies(raised_by('OSError', file_context.file_path.read_bytes()) or not decodable(old(fs)[file_context.file_path]),"
     " result is None and len(file_context.failures) == len(old(file_context.failures)) + 1"
     " and file_context.failures[len(file_context.failures) - 1] == file_context.file_path)"),
]
_FC_MOD = ["file_context.codemod_changes", "file_context.unfixed_findings", "file_context.failures",
           "file_context.dependencies", "ghost:fs"]
contract("dyn:BaseTransformerPipeline.apply", trusted=True,
         params={"self": "BaseTransformerPipeline", "context": "CodemodExecutionContext", "file_context": "FileContext",
                 "results": "list[Result] | None"}, returns="ChangeSet | None",
         modifies=_FC_MOD, raises_any=True, ensures=DYN_APPLY_ENSURES,
         note="dynamic-dispatch contract of BaseTransformerPipeline.apply; the three concrete pipelines are verified against it")

from pyvc.api import lemma
_CATP = {"results": "ResultSet", "context": "CodemodExecutionContext", "rules": "list[str]", "filename": "Path", "k": "int"}
spec("cat_rfr", params=_CATP, returns="list[Result]", recursive=True, reads=["directory"],
     body="typed_empty('list[Result]') if k <= 0 else cat_rfr(results, context, rules, filename, k - 1)"
          " + results.results_for_rule_and_file(context, rules[k - 1], filename)",
     doc="findings of the first k rules for one file, concatenated in rule order")
_LOOKUP = "results.results_for_rule_and_file(context, rules[j], filename)"
lemma("cat_rfr_members", params=_CATP, induction="k", props=["C06"],
      statement="all(iff(r in cat_rfr(results, context, rules, filename, k), any(r in " + _LOOKUP + " for j in range(k))) for r in ANY('Result'))")
lemma("cat_rfr_empty", params=_CATP, induction="k", props=["C06"],
      statement="implies(all(len(" + _LOOKUP + ") == 0 for j in range(k)), len(cat_rfr(results, context, rules, filename, k)) == 0)")
_BIND = {"results": "results", "context": "context", "rules": "rules", "filename": "filename", "k": "len(rules)"}
_LINEPAT = ("any(len(q.split(':')) == 2 and int(q.split(':')[1]) == n and fnmatch.fnmatch(str({f}), q.split(':')[0]) for q in {pats})")
contract("codemodder.codemods.base_codemod.BaseCodemod._process_file", props=["C06", "C13", "C05", "C10", "C11"],
         params={"self": "BaseCodemod", "filename": "Path", "context": "CodemodExecutionContext", "results": "ResultSet | None",
                 "rules": "list[str]"}, returns="FileContext",
         modifies=["ghost:fs"], raises_any=True,
         invariants={0: ["findings_for_rule == cat_rfr(results, context, rules, filename, k)"]},
         lemmas=[("cat_rfr_members", _BIND), ("cat_rfr_empty", _BIND)],
         ensures=[
             ("the file context is for exactly this file of this target", "result.file_path == filename and result.base_directory == context.directory"),
             ("detector-less codemod: no result list", "implies(results is None, result.results is None)"),
             ("with a detector: the file's findings are the concatenation, in rule order, of this codemod's rules' findings for this file",
              "implies(results is not None, result.results is not None and result.results == cat_rfr(results, context, rules, filename, len(rules)))"),
             ("... i.e. exactly the findings of this codemod's rules for this file (no other rule, no other file)",
              "implies(results is not None, all(iff(r in result.results, any(r in " + _LOOKUP +
              " for j in range(len(rules)))) for r in ANY('Result')))"),
             ("no finding of this codemod's rules in this file => the transformer is not invoked: nothing written, nothing reported",
              "implies(results is not None and all(len(" + _LOOKUP + ") == 0 for j in range(len(rules))),"
              " fs == old(fs) and len(result.changesets) == 0 and len(result.codemod_changes) == 0 and len(result.failures) == 0)"),
             ("a processed file that cannot be read or decoded is listed as failed by THIS codemod, whatever happened to it earlier in the run",
              "implies((results is None or len(cat_rfr(results, context, rules, filename, len(rules))) > 0)"
              " and (raised_by('OSError', filename.read_bytes()) or not decodable(old(fs)[filename])),"
              " len(result.failures) == 1 and result.failures[0] == filename)"),
             ("only this file can change on disk", "fs == store(old(fs), filename, fs[filename])"),
             ("dry-run writes nothing", "implies(context.dry_run, fs == old(fs))"),
             ("line excludes: a path:line pattern spelled relative to the target applies to this file (must)",
              "all(implies(n in file_line_patterns(filename.relative_to(context.directory), context.path_exclude), n in result.line_exclude) for n in ANY('int'))"),
             ("line includes: a path:line pattern spelled relative to the target applies to this file (must)",
              "all(implies(n in file_line_patterns(filename.relative_to(context.directory), context.path_include), n in result.line_include) for n in ANY('int'))"),
             ("line excludes: the absolute spelling of a path:line pattern applies to this file as well (must; both spellings may be mixed in one list)",
              "all(implies(n in file_line_patterns(filename, context.path_exclude), n in result.line_exclude) for n in ANY('int'))"),
             ("line includes: the absolute spelling of a path:line pattern applies to this file as well (must)",
              "all(implies(n in file_line_patterns(filename, context.path_include), n in result.line_include) for n in ANY('int'))"),
             ("line excludes come only from patterns matching this file, relative or absolute spelling (may)",
              "all(implies(n in result.line_exclude, n in file_line_patterns(filename.relative_to(context.directory), context.path_exclude)"
              " or n in file_line_patterns(filename, context.path_exclude)) for n in ANY('int'))"),
             ("line includes come only from patterns matching this file, relative or absolute spelling (may)",
              "all(implies(n in result.line_include, n in file_line_patterns(filename.relative_to(context.directory), context.path_include)"
              " or n in file_line_patterns(filename, context.path_include)) for n in ANY('int'))"),
         ])

# ---- BaseCodemod._apply: worker bound (C11), file list (C05), own-key aggregation (C09) -----------------------------------------
import concurrent.futures as _cf
import functools as _ft
from pyvc import locate as _loc
external("functools.partial", params=None, returns="Opaque", pure=True, note="functools.partial: a callable value")
external(_loc.qualname_of(_cf.ThreadPoolExecutor), params={"max_workers": "int | None", "thread_name_prefix": "Opaque", "initializer": "Opaque", "initargs": "Opaque"},
         returns="Opaque", modifies=["ghost:pool_bounds"],
         ensures=["pool_bounds == old(pool_bounds) + [val_of(max_workers) if max_workers is not None else -1]"],
         note="ThreadPoolExecutor(max_workers=n): at most n tasks in flight; None means the library default (not the user's bound)")
external("opaque.map", params={"self": "Opaque", "fn": "Opaque", "iterable": "list[Opaque]"}, returns="list[FileContext]",
         modifies=["ghost:fs", "ghost:mapped"], raises_any=True, ensures=["len(result) == len(iterable)", "mapped == old(mapped) + [iterable]"],
         note="executor.map(f, xs) yields f(x) for every x in input order; a worker's exception is re-raised; the work list is recorded in the ghost `mapped`")
external("opaque.shutdown", params=None)
external("opaque.get_provider", params=None, returns="Opaque", pure=True)
external("opaque.apply", params={"self": "Opaque", "codemod_id": "str", "context": "CodemodExecutionContext"}, returns="ResultSet", raises_any=True,
         note="detector.apply: the result set for this codemod (reads result files / runs semgrep); no project writes")
contract("dyn:BaseCodemod.get_files_to_analyze", trusted=True, functional=True,
         params={"self": "BaseCodemod", "context": "CodemodExecutionContext", "results": "ResultSet | None"}, returns="list[Path]",
         note="dynamic dispatch; both implementations are verified for C05 where claimed")
REG = __import__("pyvc.api", fromlist=["REG"]).REG
REG.opaque_attrs.update({"is_available": "bool"})
_AGGS = (("_changesets_by_codemod", "list[ChangeSet]"), ("_failures_by_codemod", "list[Path]"),
         ("_unfixed_findings_by_codemod", "list[UnfixedFinding]"), ("dependencies", "set[Dependency]"))
contract("codemodder.codemods.base_codemod.BaseCodemod._apply", props=["C11", "C09"],
         params={"self": "BaseCodemod", "context": "CodemodExecutionContext", "rules": "list[str]"},
         modifies=["context._changesets_by_codemod", "context._failures_by_codemod", "context._unfixed_findings_by_codemod",
                   "context.dependencies", "ghost:fs", "ghost:pool_bounds", "ghost:mapped"], raises_any=True,
         ensures=[("the files processed are exactly the codemod's own selection get_files_to_analyze(context, results): nothing left behind by "
                   "another codemod (failures, changesets, caches) filters or extends the work list",
                   "mapped == old(mapped) or any(mapped == old(mapped) + [old(self.get_files_to_analyze(context, r))] for r in ANY('ResultSet | None'))"),
                  ("no more than --max-workers files are processed at the same time: the only pool created is bounded by context.max_workers",
                   "pool_bounds == old(pool_bounds) or pool_bounds == old(pool_bounds) + [context.max_workers]")] +
                 [(f"results are merged under this codemod's own id only ({f})",
                   f"all(implies(q != self.id, lookup(context.{f}, q, typed_empty('{t}')) == lookup(old(context.{f}), q, typed_empty('{t}'))) for q in ANY('str'))")
                  for f, t in _AGGS])

# ---- the two implementations of get_files_to_analyze (C05): which files a codemod hands to its worker pool ---------------------------------
REG.opaque_attrs.update({"suffix": "str"})
contract("codemodder.codemods.base_codemod.FindAndFixCodemod.get_files_to_analyze", props=["C05"],
         params={"self": "BaseCodemod", "context": "CodemodExecutionContext", "results": "ResultSet | None"}, returns="list[Opaque]",
         ensures=[("only files selected by the include/exclude patterns (context.find_and_fix_paths) are handed on",
                   "all(p in context.find_and_fix_paths for p in result)"),
                  ("every selected file with one of the codemod's extensions is handed on (all of them when the codemod declares no extensions)",
                   "all(implies(p in context.find_and_fix_paths and (not self.default_extensions or p.suffix in self.default_extensions), p in result)"
                   " for p in ANY('Opaque'))"),
                  ("a file with another extension is not handed on",
                   "all(implies(p in result and bool(self.default_extensions), p.suffix in self.default_extensions) for p in ANY('Opaque'))")])
REG.record("codemodder.codemods.base_codemod.RemediationCodemod", kind="ref", fields={"requested_rules": "list[str]"},
       bases=["codemodder.codemods.base_codemod.BaseCodemod"])
external("codemodder.context.CodemodExecutionContext.filter_paths", params={"self": "CodemodExecutionContext", "paths": "list[Opaque]"}, returns="list[Opaque]",
         functional=True, reads=["path_include", "path_exclude"],
         ensures=["all(implies(p in result, p in paths) for p in ANY('Opaque'))"],
         note="match_files(directory, paths, path_exclude, included paths): selects among the given paths (match_files: bounded stand-in in C05)")
_HAS = "any(len(results.results_for_rule_and_file(context, rule_id, p)) > 0 for rule_id in self.requested_rules)"
contract("codemodder.codemods.base_codemod.RemediationCodemod.get_files_to_analyze", props=["C05", "C06"],
         params={"self": "RemediationCodemod", "context": "CodemodExecutionContext", "results": "ResultSet | None"}, returns="list[Opaque]",
         ensures=[("no results => no file is processed", "implies(results is None, len(result) == 0)"),
                  ("only files of the target that carry a finding of one of the requested rules (and have one of the codemod's extensions) are handed on",
                   "all(implies(p in result, p in context.files_to_analyze and p.suffix in (self.default_extensions or []) and " + _HAS + ") for p in ANY('Opaque'))")])
