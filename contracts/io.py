"""Assumed contracts of file I/O and text codecs over the ghost file system `fs` (trusted)."""
from pyvc.api import REG, external, spec
import libcst as _cst
from pyvc import locate as _loc

REG.opaque_attrs.update({"code": "str"})

external("opaque.read_bytes", params={"self": "Opaque"}, returns="bytes", exsures=[("OSError", None)], det_raise=True,
         ensures=["result == fs[self]"], note="Path.read_bytes returns the file's content (ghost fs) or raises OSError")
external("opaque.write_bytes", params={"self": "Opaque", "data": "bytes"}, modifies=["ghost:fs"],
         exsures=[("OSError", None, "may", ["fs == old(fs)"])],
         ensures=["fs == store(old(fs), self, data)"],
         note="Path.write_bytes replaces exactly this file's content, or raises OSError leaving it unchanged (no partial-write model)")
external("bytes.decode", params={"self": "bytes", "encoding": "str", "errors": "str"}, param_defaults={"errors": "strict"}, returns="str", pure=True,
         exsures=[("UnicodeDecodeError", "(encoding == 'utf-8' or encoding == 'utf8') and errors == 'strict' and not decodable(self)", "iff")],
         ensures=["implies((encoding == 'utf-8' or encoding == 'utf8') and (errors == 'strict' or decodable(self)), result == decode_utf8(self))"],
         note="bytes.decode('utf-8'): total on decodable bytes, the inverse of the UTF-8 encoder; with errors != 'strict' it never raises and on undecodable bytes returns an unrelated string; ANY OTHER codec (utf-8-sig, latin-1, ...) is "
              "an unrelated uninterpreted function of (bytes, codec name)")
external(_loc.qualname_of(_cst.parse_module), params={"source": "str", "config": "Opaque"}, returns="Opaque", pure=True, raises_any=True,
         ensures=["result.code == source"],
         note="libcst round trip: parse_module(s).code == s (assumed); parsing may raise")
external("opaque.transform", params={"self": "Opaque", "tree": "Opaque", "results": "list[Result] | None", "file_context": "FileContext"},
         returns="Opaque", raises_any=True,
         modifies=["file_context.codemod_changes", "file_context.dependencies", "file_context.unfixed_findings"],
         note="a LibcstResultTransformer.transform: arbitrary tree edit; touches only its file context's lists; performs no file I/O (backed by the frame scan)")
spec("text_diff", {"a": "str", "b": "str"}, "str",
     doc="the unified diff of two texts as rendered by difflib.unified_diff + difflines_to_str (uninterpreted; patch(text_diff(a,b), a) == b is the assumed differ contract)")
spec("lines_diff", {"a": "list[str]", "b": "list[str]"}, "str",
     doc="unified diff of two line lists as rendered by difflib.unified_diff + difflines_to_str (uninterpreted)")
external("re.sub", params={"pattern": "str", "repl": "str", "string": "str", "count": "int", "flags": "Opaque"}, returns="str", pure=True,
         note="re.sub: a pure total function of (pattern, replacement, line)")

# ---- XML pipeline externals ------------------------------------------------------------------------------------------
import tempfile as _tempfile
import defusedxml.sax as _dsax
REG.opaque_attrs.update({"changes": "list[Change]"})
external("tempfile.TemporaryFile", params=None, returns="Opaque", note="anonymous temporary file outside the project (not part of ghost fs)")
external("opaque.__call__", params=None, returns="Opaque", raises_any=True,
         note="instantiating the pipeline's XMLTransformer class: may raise; no project I/O")
external(_loc.qualname_of(_dsax.make_parser), params=None, returns="Opaque", raises_any=True)
external("opaque.setContentHandler", params=None, raises_any=True)
external("opaque.setProperty", params=None, raises_any=True)
external("opaque.parse", params={"self": "Opaque", "source": "Opaque"}, raises_any=True,
         note="SAX parse: reads the file, drives the handler (which writes only to the temporary output); may raise; writes no project file")
external("opaque.seek", params=None)
external("opaque.readlines", params={"self": "Opaque"}, returns="list[str]", note="lines of the temporary output")
