"""C09 / C15 / C14: the execution context's per-codemod aggregates (keyed frames) and the compiled report."""
from pyvc.api import contract, external, spec, lemma

_CX = "CodemodExecutionContext"
_AGG = ["_changesets_by_codemod", "_failures_by_codemod", "_unfixed_findings_by_codemod", "dependencies", "_dependency_update_by_codemod"]


def _others_unchanged(field, key, ety):
    return (f"dom(self.{field}) == dom(old(self.{field})) | {{{key}}} and "
            f"all(implies(k != {key}, lookup(self.{field}, k, typed_empty('{ety}')) == lookup(old(self.{field}), k, typed_empty('{ety}'))) for k in ANY('str'))")


contract("codemodder.context.CodemodExecutionContext.add_changesets", props=["C09", "C15"],
         params={"self": _CX, "codemod_name": "str", "change_sets": "list[ChangeSet]"}, modifies=["self._changesets_by_codemod"],
         ensures=[("this codemod's changesets are extended, in order",
                   "lookup(self._changesets_by_codemod, codemod_name, typed_empty('list[ChangeSet]')) == lookup(old(self._changesets_by_codemod), codemod_name, typed_empty('list[ChangeSet]')) + change_sets"),
                  ("every other codemod's changesets are untouched (whole-view frame)", _others_unchanged("_changesets_by_codemod", "codemod_name", "list[ChangeSet]"))])
contract("codemodder.context.CodemodExecutionContext.add_failures", props=["C09", "C15"],
         params={"self": _CX, "codemod_name": "str", "failed_files": "list[Path]"}, modifies=["self._failures_by_codemod"],
         ensures=[("this codemod's failed files are extended, in order",
                   "lookup(self._failures_by_codemod, codemod_name, typed_empty('list[Path]')) == lookup(old(self._failures_by_codemod), codemod_name, typed_empty('list[Path]')) + failed_files"),
                  ("every other codemod's failures are untouched", _others_unchanged("_failures_by_codemod", "codemod_name", "list[Path]"))])
contract("codemodder.context.CodemodExecutionContext.add_unfixed_findings", props=["C09", "C15"],
         params={"self": _CX, "codemod_id": "str", "unfixed_findings": "list[UnfixedFinding]"}, modifies=["self._unfixed_findings_by_codemod"],
         ensures=[("this codemod's unfixed findings are extended, in order",
                   "lookup(self._unfixed_findings_by_codemod, codemod_id, typed_empty('list[UnfixedFinding]')) == lookup(old(self._unfixed_findings_by_codemod), codemod_id, typed_empty('list[UnfixedFinding]')) + unfixed_findings"),
                  ("every other codemod's unfixed findings are untouched", _others_unchanged("_unfixed_findings_by_codemod", "codemod_id", "list[UnfixedFinding]"))])
contract("codemodder.context.CodemodExecutionContext.add_dependencies", props=["C09", "C14"],
         params={"self": _CX, "codemod_id": "str", "dependencies": "set[Dependency]"}, modifies=["self.dependencies"],
         ensures=[("this codemod's dependencies gain exactly the given ones",
                   "lookup(self.dependencies, codemod_id, typed_empty('set[Dependency]')) == lookup(old(self.dependencies), codemod_id, typed_empty('set[Dependency]')) | dependencies"),
                  ("every other codemod's dependencies are untouched", _others_unchanged("dependencies", "codemod_id", "set[Dependency]"))])
for _g, _f, _t in (("get_changesets", "_changesets_by_codemod", "list[ChangeSet]"), ("get_failures", "_failures_by_codemod", "list[Path]"),
                   ("get_unfixed_findings", "_unfixed_findings_by_codemod", "list[UnfixedFinding]")):
    contract(f"codemodder.context.CodemodExecutionContext.{_g}", props=["C09", "C15"], functional=True, reads=[_f],
             params={"self": _CX, "codemod_name": "str"}, returns=_t,
             ensures=[("reads this codemod's key only", f"result == lookup(self.{_f}, codemod_name, typed_empty('{_t}'))")])

# ---- process_results: every file context is merged, in order, under this codemod's key only ----------------------------------
_FCS = "list[FileContext]"
for _n, _fld, _t in (("cs", "changesets", "list[ChangeSet]"), ("fl", "failures", "list[Path]"), ("uf", "unfixed_findings", "list[UnfixedFinding]")):
    spec(f"cat_{_n}", {"base": _t, "fcs": _FCS, "k": "int"}, _t, recursive=True, reads=[_fld],
         body=f"base if k <= 0 else cat_{_n}(base, fcs, k - 1) + fcs[k - 1].{_fld}",
         doc=f"base extended by the {_fld} of the first k file contexts, in order")
spec("cat_dp", {"base": "set[Dependency]", "fcs": _FCS, "k": "int"}, "set[Dependency]", recursive=True, reads=["FileContext.dependencies"],
     body="base if k <= 0 else cat_dp(base, fcs, k - 1) | fcs[k - 1].dependencies")
external("opaque.aggregate", params=None, note="Timer.aggregate: bookkeeping only")


def _L(field, ety, key="codemod_id"):
    return f"lookup(self.{field}, {key}, typed_empty('{ety}'))"


def _L0(field, ety, key="codemod_id"):
    return f"lookup(old(self.{field}), {key}, typed_empty('{ety}'))"


_INV = [
    f"{_L('_changesets_by_codemod', 'list[ChangeSet]')} == cat_cs({_L0('_changesets_by_codemod', 'list[ChangeSet]')}, results, k)",
    f"{_L('_failures_by_codemod', 'list[Path]')} == cat_fl({_L0('_failures_by_codemod', 'list[Path]')}, results, k)",
    f"{_L('_unfixed_findings_by_codemod', 'list[UnfixedFinding]')} == cat_uf({_L0('_unfixed_findings_by_codemod', 'list[UnfixedFinding]')}, results, k)",
    f"{_L('dependencies', 'set[Dependency]')} == cat_dp({_L0('dependencies', 'set[Dependency]')}, results, k)",
] + [f"all(implies(q != codemod_id, lookup(self.{f}, q, typed_empty('{t}')) == lookup(old(self.{f}), q, typed_empty('{t}'))) for q in ANY('str'))"
     for f, t in (("_changesets_by_codemod", "list[ChangeSet]"), ("_failures_by_codemod", "list[Path]"),
                  ("_unfixed_findings_by_codemod", "list[UnfixedFinding]"), ("dependencies", "set[Dependency]"))]
contract("codemodder.context.CodemodExecutionContext.process_results", props=["C09", "C10", "C11", "C15"],
         params={"self": _CX, "codemod_id": "str", "results": _FCS},
         modifies=["self._changesets_by_codemod", "self._failures_by_codemod", "self._unfixed_findings_by_codemod", "self.dependencies"],
         invariants={0: _INV},
         ensures=[("changesets of ALL file contexts are appended in input order under this codemod",
                   _INV[0].replace(", k)", ", len(results))")),
                  ("failures of all file contexts likewise", _INV[1].replace(", k)", ", len(results))")),
                  ("unfixed findings of all file contexts likewise", _INV[2].replace(", k)", ", len(results))")),
                  ("dependencies of all file contexts are collected", _INV[3].replace(", k)", ", len(results))")),
                  ("no other codemod's aggregate is touched: changesets", _INV[4]), ("... failures", _INV[5]),
                  ("... unfixed findings", _INV[6]), ("... dependencies", _INV[7])])

# ---- process_dependencies: at most one manifest, first success wins ---------------------------------------------------------
external("codemodder.project_analysis.python_repo_manager.PythonRepoManager.package_stores", params={"self": "Opaque"},
         returns="list[PackageStore]", pure=True, note="the (cached) list of parsed manifests")
REG_ = __import__("pyvc.api", fromlist=["REG"]).REG
REG_.opaque_attrs["package_stores"] = "list[PackageStore]"
contract("codemodder.context.CodemodExecutionContext.process_dependencies", props=["C14", "C09", "C04"],
         params={"self": _CX, "codemod_id": "str"}, returns="dict[Dependency, PackageStore | None]",
         modifies=["self._changesets_by_codemod", "self._dependency_update_by_codemod", "ghost:fs", "ghost:events",
                   "heap:*"], raises_any=True,
         ghost_exit={"events": "old(events) + ['D:' + codemod_id]"},
         invariants={1: ["fs == old(fs)", "self._changesets_by_codemod == old(self._changesets_by_codemod)",
                         "self.dry_run == old(self.dry_run)", "self.dependencies == old(self.dependencies)"]},
         ensures=[("dry-run writes nothing", "implies(self.dry_run, fs == old(fs))"),
                  ("no dependency needed => nothing is written and nothing is reported",
                   "implies(not lookup(old(self.dependencies), codemod_id, typed_empty('set[Dependency]')),"
                   " fs == old(fs) and self._changesets_by_codemod == old(self._changesets_by_codemod))"),
                  ("at most one changeset is added, under this codemod only",
                   "len(lookup(self._changesets_by_codemod, codemod_id, typed_empty('list[ChangeSet]')))"
                   " <= len(lookup(old(self._changesets_by_codemod), codemod_id, typed_empty('list[ChangeSet]'))) + 1"
                   " and all(implies(q != codemod_id, lookup(self._changesets_by_codemod, q, typed_empty('list[ChangeSet]'))"
                   " == lookup(old(self._changesets_by_codemod), q, typed_empty('list[ChangeSet]'))) for q in ANY('str'))"),
                  ("no changeset => no manifest was written",
                   "implies(self._changesets_by_codemod == old(self._changesets_by_codemod), fs == old(fs))"),
                  ("ghost trace", "events == old(events) + ['D:' + codemod_id]")])

# ---- compile_results: one result per executed codemod, same order, built from that codemod's keys only ----------------------
_BC = "BaseCodemod"
for _p, _t in (("id", "str"), ("summary", "str"), ("references", "Opaque"), ("detection_tool", "Opaque"), ("detection_tool_rules", "Opaque"),
               ("description", "str")):
    external(f"codemodder.codemods.base_codemod.BaseCodemod.{_p}", params={"self": _BC}, returns=_t, pure=True,
             note=f"BaseCodemod.{_p}: read-only metadata property (a function of the codemod)")
external("codemodder.utils.update_finding_metadata.update_finding_metadata", params={"tool_rules": "Opaque", "changesets": "list[ChangeSet]"},
         returns="list[ChangeSet]", pure=True,
         ensures=["len(result) == len(changesets)", "all(result[i].path == changesets[i].path and result[i].diff == changesets[i].diff for i in range(len(changesets)))"],
         note="update_finding_metadata: same changesets (same paths/diffs), only rule name/url of matching findings rewritten")
import codemodder.dependency as _dep
from pyvc.api import REG as _REG
_REG.spec_globals.update({"build_failed_dependency_notification": _dep.build_failed_dependency_notification,
                          "build_dependency_notification": _dep.build_dependency_notification})
external("codemodder.dependency.build_dependency_notification", params={"filename": "Opaque", "dependency": "Dependency"}, returns="str", pure=True,
         note="text saying the dependency was added to <filename>")
external("codemodder.dependency.build_failed_dependency_notification", params={"dependency": "Dependency"}, returns="str", pure=True,
         note="text saying the dependency could NOT be added (manual installation)")
external("codemodder.codemods.base_codemod.BaseCodemod.description", params={"self": _BC}, returns="str", pure=True, note="read-only metadata property")
contract("codemodder.context.CodemodExecutionContext.add_description", props=["C15", "C14"], functional=True,
         reads=["CodemodExecutionContext.dependencies", "_dependency_update_by_codemod"],
         params={"self": _CX, "codemod": _BC}, returns="str",
         ensures=[("a codemod that needed no dependency gets its plain description",
                   "implies(len(lookup(self.dependencies, codemod.id, typed_empty('set[Dependency]'))) == 0, result == codemod.description)"),
                  ("needed a dependency and no manifest was updated for THIS codemod: the report says so (failed-update notice for one of its dependencies)",
                   "implies(len(lookup(self.dependencies, codemod.id, typed_empty('set[Dependency]'))) > 0"
                   " and lookup(self._dependency_update_by_codemod, codemod.id, None) is None,"
                   " any(result == codemod.description + build_failed_dependency_notification(d) for d in lookup(self.dependencies, codemod.id, typed_empty('set[Dependency]'))))")],
         note="description text of one codemod (reads only that codemod's keys)")
spec("compiled", {"self": _CX, "codemods": "list[BaseCodemod]", "k": "int"}, "list[codemodder.codetf.Result]", recursive=True,
     reads=["_changesets_by_codemod", "_failures_by_codemod", "_unfixed_findings_by_codemod", "CodemodExecutionContext.dependencies", "_dependency_update_by_codemod"],
     body="typed_empty('list[codemodder.codetf.Result]') if k <= 0 else compiled(self, codemods, k - 1) + [CodeTFResult("
          "codemod=codemods[k - 1].id, summary=codemods[k - 1].summary, description=self.add_description(codemods[k - 1]),"
          " detectionTool=codemods[k - 1].detection_tool, references=codemods[k - 1].references, properties={},"
          " failedFiles=[str(file) for file in self.get_failures(codemods[k - 1].id)],"
          " changeset=update_finding_metadata(codemods[k - 1].detection_tool_rules, self.get_changesets(codemods[k - 1].id)),"
          " unfixedFindings=self.get_unfixed_findings(codemods[k - 1].id))]",
     doc="result i is built from codemod i's metadata and codemod i's keys of the aggregates only")
contract("codemodder.context.CodemodExecutionContext.compile_results", props=["C15", "C09"],
         params={"self": _CX, "codemods": "list[BaseCodemod]"}, returns="list[codemodder.codetf.Result]",
         invariants={0: ["results == compiled(self, codemods, k)"]},
         ensures=[("exactly one result per executed codemod", "len(result) == len(codemods)"),
                  ("results are in execution order and each is built from its own codemod's id/summary/description and its own keys only",
                   "result == compiled(self, codemods, len(codemods))")],
         lemmas=[("compiled_len", {"self": "self", "codemods": "codemods", "k": "len(codemods)"})])
lemma("compiled_len", params={"self": _CX, "codemods": "list[BaseCodemod]", "k": "int"}, induction="k", props=["C15"],
      statement="len(compiled(self, codemods, k)) == k")

# ---- apply_codemods: a sequential fold - codemod i+1 starts after codemod i's files AND manifest have been written -----------------
_OWN = ("all(implies(q != self.id, lookup(context.{f}, q, typed_empty('{t}')) == lookup(old(context.{f}), q, typed_empty('{t}'))) for q in ANY('str'))")
contract("dyn:BaseCodemod.apply", trusted=True,
         params={"self": _BC, "context": _CX},
         modifies=["context._changesets_by_codemod", "context._failures_by_codemod", "context._unfixed_findings_by_codemod",
                   "context.dependencies", "ghost:fs", "ghost:events"], raises_any=True,
         ensures=[("trace", "events == old(events) + ['A:' + self.id]")] +
                 [(f"only its own key of {f}", _OWN.format(f=f, t=t)) for f, t in
                  (("_changesets_by_codemod", "list[ChangeSet]"), ("_failures_by_codemod", "list[Path]"),
                   ("_unfixed_findings_by_codemod", "list[UnfixedFinding]"), ("dependencies", "set[Dependency]"))],
         note="BaseCodemod.apply (dynamic dispatch): processes the files and merges results under its own id only; BOTH overrides in the repository "
              "(BaseCodemod.apply, RemediationCodemod.apply) are verified against these clauses")
# the two concrete apply methods, verified against the dispatch contract above (they delegate to _apply, whose contract carries the clauses)
for _qn, _self in (("codemodder.codemods.base_codemod.BaseCodemod.apply", _BC), ("codemodder.codemods.base_codemod.RemediationCodemod.apply", "RemediationCodemod")):
    contract(_qn, props=["C09", "C17"], params={"self": _self, "context": _CX},
             modifies=["context._changesets_by_codemod", "context._failures_by_codemod", "context._unfixed_findings_by_codemod",
                       "context.dependencies", "ghost:fs", "ghost:events", "ghost:pool_bounds", "ghost:mapped"], raises_any=True,
             ghost_exit={"events": "old(events) + ['A:' + self.id]"},
             ensures=[("trace", "events == old(events) + ['A:' + self.id]")] +
                     [(f"only its own key of {f}", _OWN.format(f=f, t=t)) for f, t in
                      (("_changesets_by_codemod", "list[ChangeSet]"), ("_failures_by_codemod", "list[Path]"),
                       ("_unfixed_findings_by_codemod", "list[UnfixedFinding]"), ("dependencies", "set[Dependency]"))])
external("codemodder.codemodder.record_dependency_update", params={"dependency_results": "Opaque"}, note="logging only")
external("codemodder.context.CodemodExecutionContext.log_changes", params={"self": _CX, "codemod_id": "str"}, note="logging only")
spec("ev_seq", {"base": "list[str]", "codemods": "list[BaseCodemod]", "k": "int"}, "list[str]", recursive=True,
     body="base if k <= 0 else ev_seq(base, codemods, k - 1) + ['A:' + codemods[k - 1].id] + ['D:' + codemods[k - 1].id]",
     doc="apply then process-dependencies, codemod by codemod, in the given order")
contract("codemodder.codemodder.apply_codemods", props=["C09", "C17"],
         params={"context": _CX, "codemods_to_run": "list[BaseCodemod]"},
         modifies=["heap:*", "ghost:fs", "ghost:events"], raises_any=True,
         invariants={0: ["events == ev_seq(old(events), codemods_to_run, k)"]},
         ensures=[("the codemods run one at a time in the given order, each followed by ITS dependency update before the next starts",
                   "events == old(events) or events == ev_seq(old(events), codemods_to_run, len(codemods_to_run))")])
