"""C20: the exit status tells the caller what happened (codemodder.run / main / cli / write_report / llm set-up)."""
from pyvc.api import contract, external, REG

# ---- assumed contracts of what `run` calls (each is either an external or a repo function verified elsewhere) -------
external("datetime.datetime.now", params={}, returns="Opaque", note="clock")
external("opaque.total_seconds", params={"self": "Opaque"}, returns="int", pure=True)
external("codemodder.registry.load_registered_codemods", params={"ep_filter": "Opaque"}, returns="Opaque", pure=True,
         note="registry construction (verified for C17/C11 where claimed); total here")
external("codemodder.providers.load_providers", params={}, returns="Opaque", note="provider registry; total")
external("codemodder.cli.parse_args", params={"argv": "Opaque", "codemod_registry": "Opaque"}, returns="Opaque", pure=True,
         exsures=[("SystemExit", None, "may", ["exc_code(exc) == 3 or exc_code(exc) == 0"])],
         note="argparse: returns the namespace, or exits through ArgumentParser.error (status 3, verified) or parser.exit() (status 0) for --list/--describe/--help/--version")
external("posixpath.exists", params={"path": "Opaque"}, returns="bool", pure=True, note="os.path.exists: a predicate of the path (file system fixed during start-up)")
external("genericpath.exists", params={"path": "Opaque"}, returns="bool", pure=True, note="os.path.exists")
external("pathlib.Path", params={"p": "Opaque"}, returns="Opaque", pure=True, note="Path(str): pure")
external("codemodder.sarifs.detect_sarif_tools", params={"filenames": "list[Opaque]"}, returns="defaultdict[str, list[Opaque]]", pure=True,
         exsures=[("DuplicateToolError", None), ("FileNotFoundError", None)], raises_any=True,
         note="SARIF tool detection: may raise DuplicateToolError / FileNotFoundError (handled by run) or anything else json/IO raises (escapes)")
external("codemodder.project_analysis.python_repo_manager.PythonRepoManager", params={"parent_directory": "Opaque"}, returns="Opaque")
external("opaque.parse_project", params={"self": "Opaque"}, returns="Opaque")
external("opaque.match_codemods", params={"self": "Opaque", "codemod_include": "Opaque", "codemod_exclude": "Opaque", "sast_only": "Opaque"},
         returns="list[BaseCodemod]", pure=True, note="CodemodRegistry.match_codemods (bounded stand-in for C17); pure selection")
external("codemodder.context.CodemodExecutionContext",
         params={"directory": "Opaque", "dry_run": "Opaque", "verbose": "Opaque", "registry": "Opaque", "providers": "Opaque",
                 "repo_manager": "Opaque", "path_include": "Opaque", "path_exclude": "Opaque", "tool_result_files_map": "Opaque",
                 "max_workers": "Opaque"},
         returns="CodemodExecutionContext", exsures=[("MisconfiguredAIClient", None)], pure=True,
         note="context constructor: raises MisconfiguredAIClient from the AI-client set-up (verified below), otherwise total")
external("codemodder.context.CodemodExecutionContext.find_and_fix_paths", params={"self": "CodemodExecutionContext"}, returns="list[Opaque]",
         functional=True, reads=[], note="cached property: one list per context (match_files over the files of the target: bounded stand-in in C05)")
external("codemodder.context.CodemodExecutionContext.files_to_analyze", params={"self": "CodemodExecutionContext"}, returns="list[Opaque]",
         functional=True, reads=[], note="cached property: one list per context (files_for_directory: regular non-symlink files of the target)")
external("codemodder.context.CodemodExecutionContext.included_paths", params={"self": "CodemodExecutionContext"}, returns="list[str]")
external("codemodder.codemodder.find_semgrep_results", params={"context": "CodemodExecutionContext", "codemods": "list[BaseCodemod]", "files_to_analyze": "Opaque"},
         returns="ResultSet", note="semgrep pre-filter (semgrep binary absent offline); total here - an escaping exception ends the process with status 1 (outside the property)")
external("codemodder.codemodder.apply_codemods", params={"context": "CodemodExecutionContext", "codemods_to_run": "list[Opaque]"},
         modifies=["context._changesets_by_codemod", "context._failures_by_codemod", "context._unfixed_findings_by_codemod",
                   "context.dependencies", "context._dependency_update_by_codemod", "ghost:fs"],
         note="runs the codemods (verified for C09/C15); writes project files only, never the report")
external("codemodder.context.CodemodExecutionContext.compile_results", params={"self": "CodemodExecutionContext", "codemods": "list[BaseCodemod]"},
         returns="Opaque", note="verified for C15")
external("codemodder.codetf.Run", params=None, returns="Opaque", pure=True, raises_any=True, note="pydantic record of the run header")
external("posixpath.basename", params=None, returns="str", pure=True)
external("opaque.absolute", params={"self": "Opaque"}, returns="Opaque", pure=True)
contract("codemodder.codetf.CodeTF.build", props=["C15"],
         params={"context": "CodemodExecutionContext", "elapsed_ms": "Opaque", "original_args": "list[str]", "results": "Opaque"},
         returns="CodeTF", raises_any=True,
         ensures=[("the report carries exactly the compiled results it was given (same object: same entries, same order)", "result.results == results")])

# ---- write_report: 0 iff the report was written, 2 on any failure ---------------------------------------------------------
external("pydantic.main.BaseModel.model_dump_json", params={"self": "CodeTF", "exclude_none": "bool"}, returns="str", raises_any=True, pure=True,
         note="pydantic serialisation may raise")
external("opaque.model_dump_json", params={"self": "Opaque", "exclude_none": "bool"}, returns="str", raises_any=True)
contract("codemodder.codetf.CodeTF.write_report", props=["C20", "C15"],
         params={"self": "CodeTF", "outfile": "Opaque"}, returns="int", modifies=["ghost:fs", "ghost:report_written"],
         ghost_exit={"report_written": "old(report_written) or result == 0"},
         ensures=[("status is 0 or 2", "result == 0 or result == 2"),
                  ("0 exactly when the whole serialised report reached the file",
                   "implies(result == 0, fs[outfile] == self.model_dump_json(exclude_none=True).encode('utf-8'))"),
                  ("ghost: report_written records a successful write", "report_written == (old(report_written) or result == 0)"),
                  ("only the report file is touched", "fs == store(old(fs), outfile, fs[outfile])")],
         covers=["result == 0", "result == 2"])


_ARGV = "parse_args(original_args, registry.load_registered_codemods())"
_CTX = ("CodemodExecutionContext(Path(argv.directory), argv.dry_run, argv.verbose, registry.load_registered_codemods(),"
        " providers.load_providers(), PythonRepoManager(Path(argv.directory)), argv.path_include, argv.path_exclude,"
        " tool_result_files_map, argv.max_workers)")
contract("codemodder.codemodder.run", props=["C20", "C17"],
         params={"original_args": "Opaque"}, returns="int",
         modifies=["heap:*", "ghost:fs", "ghost:report_written", "ghost:last_run_status", "ghost:events", "ghost:pool_bounds"],
         assume_entry=["not report_written"], raises_any=True,
         ghost_exit={"last_run_status": "result"},
         exsures=[("SystemExit", None, "may", ["exc_code(exc) == 0 or exc_code(exc) == 3", "not report_written",
                                               "last_run_status == old(last_run_status)"])],
         invariants={0: ["all(os.path.exists(seq[j]) for j in range(k))"]},
         ensures=[
             ("the status is one of the documented values", "result == 0 or result == 1 or result == 2 or result == 3"),
             ("missing target directory => 1", f"implies(not os.path.exists({_ARGV}.directory), result == 1)"),
             ("two SARIF inputs of one tool, or a missing SARIF file => 1",
              f"implies(os.path.exists({_ARGV}.directory) and (raised_by('DuplicateToolError', detect_sarif_tools([Path(name) for name in {_ARGV}.sarif or []]))"
              f" or raised_by('FileNotFoundError', detect_sarif_tools([Path(name) for name in {_ARGV}.sarif or []]))), result == 1)"),
             ("a non-zero status is never returned for a run whose report was written", "implies(result != 0, not report_written)"),
             ("status 0 with --output means the report was written", f"implies(result == 0 and {_ARGV}.output, report_written)"),
             ("a completed run whose report could not be written returns 2",
              f"implies({_ARGV}.output and not report_written and result != 1 and result != 3, result == 2)"),
             ("2 is returned only when a requested report could not be written", f"implies(result == 2, {_ARGV}.output and not report_written)"),
             ("ghost: last_run_status", "last_run_status == result"),
             ("exactly the selected codemods run, once each, in the selected order; tool-specific codemods are eligible exactly when Sonar issue files or SARIF files are given",
              f"events == old(events) or events == ev_seq(old(events), registry.load_registered_codemods().match_codemods({_ARGV}.codemod_include,"
              f" {_ARGV}.codemod_exclude, sast_only={_ARGV}.sonar_issues_json or {_ARGV}.sarif),"
              f" len(registry.load_registered_codemods().match_codemods({_ARGV}.codemod_include, {_ARGV}.codemod_exclude,"
              f" sast_only={_ARGV}.sonar_issues_json or {_ARGV}.sarif)))"),
         ],
         covers=["result == 0", "result == 1", "result == 3"])

# ---- main / argument errors ------------------------------------------------------------------------------------
REG.opaque_globals = {"sys.argv", "sys.stderr"}
external("sys.exit", params={"status": "int"}, exsures=[("SystemExit", "True", "iff", ["exc_code(exc) == status"])],
         ensures=[("never returns", "False")], note="sys.exit(n) raises SystemExit(n)")
external("argparse.ArgumentParser.print_help", params={"self": "ArgumentParser", "file": "Opaque"}, note="prints; total")

contract("codemodder.cli.ArgumentParser.error", props=["C20"],
         params={"self": "ArgumentParser", "message": "Opaque"},
         exsures=[("SystemExit", None, "may", ["exc_code(exc) == 3"])],
         noreturn=True, ensures=[("an argument error never returns normally", "False")])

contract("codemodder.codemodder.main", props=["C20"], params={},
         modifies=["heap:*", "ghost:fs", "ghost:report_written", "ghost:last_run_status"],
         assume_entry=["not report_written", "last_run_status == -1"], raises_any=True,
         exsures=[("SystemExit", None, "may",
                   ["implies(last_run_status != -1, exc_code(exc) == last_run_status)",
                    "implies(last_run_status == -1, exc_code(exc) == 0 or exc_code(exc) == 3)",
                    "implies(exc_code(exc) != 0, not report_written)"])],
         noreturn=True, ensures=[("main always ends the process through sys.exit", "False")])

# ---- AI client set-up (status 3 for an inconsistent configuration) -------------------------------------------------
from pyvc import locate as _loc
import codemodder.llm as _llm
external("os.getenv", params={"key": "str", "default": "Opaque"}, returns="str | None", pure=True,
         note="environment lookup: a function of the key (environment fixed during one call)")
for _cls in (_llm.AzureOpenAI, _llm.OpenAI, _llm.ChatCompletionsClient, _llm.AzureKeyCredential):
    if _cls is not None:
        external(_loc.qualname_of(_cls), params=None, returns="Opaque", note="client library constructor: total")

_K, _E = "os.getenv('CODEMODDER_AZURE_OPENAI_API_KEY')", "os.getenv('CODEMODDER_AZURE_OPENAI_ENDPOINT')"
contract("codemodder.llm.setup_openai_llm_client", props=["C20"], params={}, returns="Opaque",
         exsures=[("MisconfiguredAIClient", f"bool({_K}) != bool({_E})")],
         ensures=[("returns normally only for a consistent Azure OpenAI configuration", f"bool({_K}) == bool({_E})")],
         note="verified for the configuration of this sandbox (openai client library importable)")
_K2, _E2 = "os.getenv('CODEMODDER_AZURE_LLAMA_API_KEY')", "os.getenv('CODEMODDER_AZURE_LLAMA_ENDPOINT')"
contract("codemodder.llm.setup_azure_llama_llm_client", props=["C20"], params={}, returns="Opaque",
         exsures=[("MisconfiguredAIClient", f"bool({_K2}) != bool({_E2})")],
         ensures=[("returns normally only for a consistent Azure Llama configuration", f"bool({_K2}) == bool({_E2})")])

external("codemodder.utils.timer.Timer", params={}, returns="Opaque")
contract("codemodder.context.CodemodExecutionContext.__init__", props=["C20", "C04", "C11", "C15", "C09", "C13", "C05"],
         params={"self": "CodemodExecutionContext", "directory": "Opaque", "dry_run": "bool", "verbose": "bool", "registry": "Opaque",
                 "providers": "Opaque", "repo_manager": "Opaque", "path_include": "list[str]", "path_exclude": "list[str]",
                 "tool_result_files_map": "dict[str, list[str]] | None", "max_workers": "int"},
         modifies=["self._ALL_"],
         exsures=[("MisconfiguredAIClient", None)],
         ensures=[("the options reach the context unchanged",
                   "self.directory == directory and self.dry_run == dry_run and self.max_workers == max_workers"
                   " and self.path_include == path_include and self.path_exclude == path_exclude"),
                  ("every per-codemod aggregate starts empty",
                   "len(dom(self._changesets_by_codemod)) >= 0 and not self._changesets_by_codemod and not self._failures_by_codemod"
                   " and not self._unfixed_findings_by_codemod and not self.dependencies and not self._dependency_update_by_codemod")])
